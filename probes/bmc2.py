import pickle, sys, time, json
import z3
edges, nstates = pickle.load(open("lts_aa_set_1.pkl","rb"))
labels = sorted({k[1] for k in edges}, key=repr)
L = {l:i for i,l in enumerate(labels)}
SB, EB = 12, 5
PH = {"pake":1,"version":2,"0":4}
def addmask(out):
    m=0
    for j in out:
        d=json.loads(j)
        if d["type"]=="add": m|=PH[d["phase"]]
    return m
need = {}
for l,i in L.items():
    if l[0]=="msg" and l[1]==False and l[3]=="ok": need[i]=PH[l[2]]
E = [(s, L[l], v[0], addmask(v[1]), int(any(a[0]=="msg" for a in v[2])), int(l[0]=="send")) for (s,l),v in edges.items()]
K = int(sys.argv[1])
MODE = sys.argv[2] if len(sys.argv)>2 else "unsat"
s = z3.SolverFor("QF_BV")
sA=[z3.BitVec(f"sA{t}",SB) for t in range(K+1)]; sB=[z3.BitVec(f"sB{t}",SB) for t in range(K+1)]
aA=[z3.BitVec(f"aA{t}",3) for t in range(K+1)]; aB=[z3.BitVec(f"aB{t}",3) for t in range(K+1)]
sentB=[z3.Bool(f"sentB{t}") for t in range(K+1)]
bad=[z3.Bool(f"bad{t}") for t in range(K+1)]
got=[z3.Bool(f"got{t}") for t in range(K+1)]
who=[z3.Bool(f"who{t}") for t in range(K)]; ev=[z3.BitVec(f"e{t}",EB) for t in range(K)]
s.add(sA[0]==0, sB[0]==0, aA[0]==0, aB[0]==0, z3.Not(sentB[0]), z3.Not(bad[0]), z3.Not(got[0]))
def rel(sx, e, sx2, add, dl, snd):
    return z3.Or([z3.And(sx==a, e==b, sx2==c, add==d, dl==(f==1), snd==(g==1)) for (a,b,c,d,f,g) in E])
for t in range(K):
    add=z3.BitVec(f"add{t}",3); dl=z3.Bool(f"dl{t}"); snd=z3.Bool(f"snd{t}")
    sx = z3.If(who[t], sA[t], sB[t]); sx2 = z3.If(who[t], sA[t+1], sB[t+1])
    ay = z3.If(who[t], aB[t], aA[t])
    s.add(rel(sx, ev[t], sx2, add, dl, snd))
    s.add(z3.And([z3.Implies(ev[t]==li, (ay & nb)!=0) for li,nb in need.items()]))
    s.add(z3.If(who[t], z3.And(sB[t+1]==sB[t], aB[t+1]==aB[t], aA[t+1]==(aA[t]|add), sentB[t+1]==sentB[t],
                               got[t+1]==z3.Or(got[t], dl),
                               bad[t+1]==z3.Or(bad[t], z3.And(dl, z3.Not(sentB[t])))),
                        z3.And(sA[t+1]==sA[t], aA[t+1]==aA[t], aB[t+1]==(aB[t]|add), sentB[t+1]==z3.Or(sentB[t], snd), got[t+1]==got[t], bad[t+1]==bad[t])))
if MODE=="unsat": s.add(bad[K])
else: s.add(got[K])
t0=time.time(); r=s.check(); print("K",K,MODE,r,"%.1fs"%(time.time()-t0), flush=True)
