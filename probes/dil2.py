from dil import *
net = Net()
A, sa, ca = mk(net, "aa"*8); B, sb, cb = mk(net, "bb"*8)
A.got_wormhole_versions({"can-dilate":["ged"]}); B.got_wormhole_versions({"can-dilate":["ged"]})
def xfer():
    n=0
    while sa.out or sb.out:
        if sa.out: ph,pt = sa.out.popleft(); B.received_dilation_message(pt); n+=1
        if sb.out: ph,pt = sb.out.popleft(); A.received_dilation_message(pt); n+=1
    return n
npings=[0]
orig = B.send_ping
def cnt(pid, cb=None):
    npings[0]+=1; return orig(pid, cb)
B.send_ping = cnt
for i in range(3):
    xfer(); pump(net, None, [ca, cb], maxit=50)
L = B  # leader
print("leader pings so far", npings[0], "timer due in", L._timer.getTime()-cb.seconds() if L._timer else None, "outstanding", len(L._pings_outstanding))
pump(net, None, [ca, cb], maxit=500)
print("after 500 more pump iterations (no time passing): pings", npings[0], "timer due in", L._timer.getTime()-cb.seconds())
# now peer goes silent: stop pumping data, advance leader clock by 3 intervals
t0 = cb.seconds()
disc=[]
oc = L._connection.disconnect
L._connection.disconnect = lambda: (disc.append(cb.seconds()-t0), oc())
for step in range(400):
    cb.advance(30.0)
    if disc: break
print("silent peer: disconnect called after", disc, "seconds; intervals:", (disc[0]/30.0 if disc else None))
