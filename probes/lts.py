import sys, time, pickle
from sim import *
from sim import _key
MY=sys.argv[2] if len(sys.argv)>2 else "aa"*5
PEER="bb"*5 if MY=="aa"*5 else "aa"*5
code="1-abc"
NMSG=int(sys.argv[1]) if len(sys.argv)>1 else 1
key = FakeSPAKE(b"1-abc").finish(b"P(1-abc)")
def enc(side, phase, pt): return FakeBox(_key.derive_phase_key(key, side, phase)).encrypt(pt)
PEERMS = {"pake": dict_to_bytes({"pake_v1": bytes_to_hexstr(b"P(1-abc)")}),
          "version": enc(PEER,"version", dict_to_bytes({"app_versions": {}}))}
for i in range(NMSG): PEERMS[str(i)] = enc(PEER, str(i), b"p%d"%i)

class Env:
    """local per-connection conformance tracker"""
    def __init__(self): self.q=(); self.sub=False; self.closed_mb=False; self.added=()
    def key(self): return (self.q, self.sub, self.closed_mb, self.added)
    def on_open(self): self.q=("welcome",); self.sub=False
    def on_lost(self): self.q=(); self.sub=False
    def on_tx(self, msgs):
        for m in msgs:
            t=m["type"]
            if t=="claim": self.q+=("claimed",)
            elif t=="release": self.q+=("released",)
            elif t=="close": self.q+=("closed",); self.sub=False; self.closed_mb=True
            elif t=="allocate": self.q+=("allocated",)
            elif t=="list": self.q+=("nameplates",)
            elif t=="open": self.sub=True
            elif t=="add":
                if m["phase"] not in self.added: self.added+=(m["phase"],)

class Sys:
    def __init__(self):
        self.c = Client(MY); self.env=Env(); self.trace=()
        self.api = {"code":False, "sent":0, "closed":False}
    def fp(self): return (fp(self.c), self.env.key(), tuple(sorted(self.api.items())))
    def events(self):
        c=self.c; evs=[]
        if not self.api["code"]: evs += [("set_code", code)] if MODE=="set" else [("allocate",)]
        if self.api["sent"]<NMSG: evs.append(("send", b"m%d"%self.api["sent"]))
        if not self.api["closed"]: evs.append(("close",))
        if c.rc._connector.stop_d is not None: evs.append(("stopped",))
        if c.ws is None:
            if c.rc._connector.stop_d is None and not STOPPED(c): evs.append(("open",))
        else:
            evs.append(("lost",))
            if self.env.q:
                t=self.env.q[0]; m={"type":t}
                if t=="welcome": m["welcome"]={}
                if t=="claimed": m["mailbox"]="mb1"
                if t=="allocated": m["nameplate"]="1"
                if t=="nameplates": m["nameplates"]=[{"id":"1"}]
                evs.append(("rxq", m))
            if self.env.sub:
                for ph, body in PEERMS.items():
                    evs.append(("rx", {"type":"message","side":PEER,"phase":ph,"body":bytes_to_hexstr(body)}))
                evs.append(("rx", {"type":"message","side":PEER,"phase":"0","body":bytes_to_hexstr(b"garbage")}))
                for ph in self.env.added:
                    evs.append(("echo", ph))
        return evs
    def do(self, e):
        c=self.c
        if e[0]=="set_code" or e[0]=="allocate": self.api["code"]=True
        if e[0]=="send": self.api["sent"]+=1
        if e[0]=="close": self.api["closed"]=True
        if e[0]=="open": self.env.on_open()
        if e[0]=="lost": self.env.on_lost()
        if e[0]=="rxq": self.env.q=self.env.q[1:]; e=("rx", e[1])
        if e[0]=="echo":
            body = self.sentbodies[e[1]]
            e=("rx", {"type":"message","side":MY,"phase":e[1],"body":body})
        sent, appev = c.do(e)
        for m in sent:
            if m["type"]=="add": self.sentbodies[m["phase"]]=m["body"]
        self.env.on_tx(sent)
        return sent, appev
    sentbodies = None
def STOPPED(c):
    T=c.b._T; tr=getattr(T, type(T).m._symbol, None)
    return tr is not None and tr._state.method.__name__ in ("S_stoppingD","S_stopped","S_stoppingRC")

MODE=sys.argv[3] if len(sys.argv)>3 else "set"
def replay(trace):
    s=Sys(); s.sentbodies={}
    for e in trace: s.do(e)
    return s

t0=time.time()
init=replay(())
seen={init.fp(): 0}; traces=[()]; edges={}  # (sid, ev_label) -> (sid2, out)
frontier=[0]; errs={}
depth=0
def label(e):
    if e[0] in ("rx","rxq"):
        m=e[1]
        if m["type"]=="message": return ("msg", m["side"]==MY, m["phase"], "bad" if m["body"]==bytes_to_hexstr(b"garbage") else "ok")
        return ("rx", m["type"])
    return e
while frontier:
    depth+=1; nxt=[]
    for sid in frontier:
        base=replay(traces[sid])
        if base.c.err: continue
        for e in base.events():
            s=replay(traces[sid]); sent, appev = s.do(e)
            f=s.fp()
            if s.c.err and s.c.err not in errs: errs[s.c.err]=traces[sid]+(e,)
            if f not in seen:
                seen[f]=len(traces); traces.append(traces[sid]+(e,)); nxt.append(seen[f])
            edges[(sid,label(e))]=(seen[f], tuple(json.dumps(m,sort_keys=True) for m in sent), tuple(appev))
    frontier=nxt
    print("depth",depth,"states",len(seen),"frontier",len(frontier),"edges",len(edges),"t=%.1f"%(time.time()-t0),flush=True)
    if depth>=40: break
for k,v in errs.items(): print("ERR",k,"\n  via",[label(e) for e in v])
pickle.dump((edges, len(seen)), open("lts_%s_%s_%d.pkl"%(MY[:2],MODE,NMSG),"wb"))
labels=sorted({k[1] for k in edges}, key=repr); print(len(labels),"labels")
outs={v[1:] for v in edges.values()}; print(len(outs),"distinct outputs")
