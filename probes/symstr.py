import z3, builtins
import symrun as S
from symrun import SymBool
def _cp(x): return x if z3.is_expr(x) else z3.IntVal(ord(x))
class SymStr:
    def __init__(self, cps): self.c = list(cps)
    def __len__(self): return len(self.c)
    def __iter__(self): return (SymStr([x]) for x in self.c)
    def __getitem__(self, k):
        if isinstance(k, slice): return SymStr(self.c[k])
        return SymStr([self.c[k]])
    def __add__(self, o): return SymStr(self.c + _els(o))
    def __radd__(self, o): return SymStr(_els(o) + self.c)
    def __eq__(self, o):
        if not isinstance(o, (SymStr, builtins.str)): return False
        oe = _els(o)
        if len(oe) != len(self.c): return False
        if not oe: return True
        return SymBool(z3.And([_cp(a) == _cp(b) for a, b in zip(self.c, oe)]))
    def __ne__(self, o):
        r = self.__eq__(o)
        return (not r) if isinstance(r, bool) else SymBool(z3.Not(r.t))
    def __hash__(self): raise S.Escape("hash")
    def __contains__(self, sub):
        return bool(self.find(sub) >= 0)
    def startswith(self, p, start=0):
        pe = _els(p)
        if start: return self[start:].startswith(p)
        if len(pe) > len(self.c): return False
        return self[:len(pe)] == SymStr(pe)
    def endswith(self, p):
        pe = _els(p)
        if len(pe) > len(self.c): return False
        return self[len(self.c)-len(pe):] == SymStr(pe)
    def find(self, sub):
        se = _els(sub)
        for i in range(0, len(self.c) - len(se) + 1):
            if self[i:i+len(se)] == SymStr(se): return i
        return -1
    def rfind(self, sub):
        se = _els(sub)
        for i in range(len(self.c) - len(se), -1, -1):
            if self[i:i+len(se)] == SymStr(se): return i
        return -1
    def count(self, sub):
        se = _els(sub); n = 0; i = 0
        while i <= len(self.c) - len(se):
            if self[i:i+len(se)] == SymStr(se): n += 1; i += len(se)
            else: i += 1
        return n
    def split(self, sep, maxsplit=-1):
        out = []; cur = []; n = 0
        se = _els(sep); assert len(se) == 1
        for x in self.c:
            if (maxsplit < 0 or n < maxsplit) and bool(SymBool(_cp(x) == _cp(se[0]))):
                out.append(SymStr(cur)); cur = []; n += 1
            else: cur.append(x)
        out.append(SymStr(cur)); return out
    def rstrip(self, chars):
        c = list(self.c)
        while c and bool(SymBool(z3.Or([_cp(c[-1]) == _cp(ch) for ch in chars]))): c.pop()
        return SymStr(c)
    def model(self, m): return "".join(chr(m.eval(_cp(x), model_completion=True).as_long()) for x in self.c)
def _els(o):
    if isinstance(o, SymStr): return list(o.c)
    if isinstance(o, builtins.str): return list(o)
    raise S.Escape(repr(o))
def fresh(name, n):
    cs = [z3.Int(f"{name}{i}") for i in range(n)]
    for c in cs: S.ENG.solver.add(c >= 0, c < 0x110000)
    return SymStr(cs)
