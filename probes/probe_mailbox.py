from typing import List
from unittest import mock
from zope.interface import directlyProvides
from wormhole import _interfaces
from wormhole._mailbox import Mailbox
from automat import NoTransition

class RC:
    def __init__(self): self.log = []
    def tx_open(self, mailbox): self.log.append(("open", mailbox))
    def tx_add(self, phase, body): self.log.append(("add", phase, body))
    def tx_close(self, mailbox, mood): self.log.append(("close", mailbox, mood))
class N:
    def release(self): pass
class O:
    def __init__(self): self.got = []
    def got_message(self, side, phase, body): self.got.append((side, phase, body))
class T:
    def __init__(self): self.done = 0
    def mailbox_done(self): self.done += 1

def build():
    rc, n, o, t = RC(), N(), O(), T()
    directlyProvides(rc, _interfaces.IRendezvousConnector)
    directlyProvides(n, _interfaces.INameplate)
    directlyProvides(o, _interfaces.IOrder)
    directlyProvides(t, _interfaces.ITerminator)
    m = Mailbox("side1")
    m.wire(n, rc, o, t)
    return m, rc, n, o, t

def run(a: int, b: int, c: int, d: int, p1: int, p2: int) -> bool:
    """
    pre: 0 <= a < 6 and 0 <= b < 6 and 0 <= c < 6 and 0 <= d < 6
    pre: 0 <= p1 < 3 and 0 <= p2 < 3
    post: _ == True
    """
    m, rc, n, o, t = build()
    connected = False
    have_mbox = False
    opened = False
    for i, ev in enumerate([a, b, c, d]):
        try:
            if ev == 0:
                if connected: continue
                m.connected(); connected = True
            elif ev == 1:
                if not connected: continue
                m.lost(); connected = False
            elif ev == 2:
                if have_mbox: continue
                m.got_mailbox("mb"); have_mbox = True
            elif ev == 3:
                m.add_message(str(p1), b"x")
            elif ev == 4:
                if not (connected and have_mbox): continue
                m.rx_message("side2", str(p2), b"y")
            elif ev == 5:
                if not (connected and have_mbox): continue
                m.rx_message("side1", str(p1), b"x")
        except NoTransition:
            return False
    phases = [g[1] for g in o.got]
    return len(phases) == len(set(phases))
