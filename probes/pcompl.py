import sys, time, z3
import symrun as S, symstr as SS
from wormhole import _wordlist as W
N = int(sys.argv[1])
wl = W.PGPWordList()
W.odd_words_lowercase = sorted(W.odd_words_lowercase); W.even_words_lowercase = sorted(W.even_words_lowercase)
W.odd_words_lowercase = [SS.SymStr(list(w)) for w in W.odd_words_lowercase]; W.even_words_lowercase = [SS.SymStr(list(w)) for w in W.even_words_lowercase]
class SymSet:
    def __init__(self, it=()):
        self.items=[]
        for x in it: self.add(x)
    def add(self, x):
        for y in self.items:
            if bool(x == y): return
        self.items.append(x)
    def __iter__(self): return iter(self.items)
    def __len__(self): return len(self.items)
W.set = SymSet
def harness():
    p = SS.fresh("p", N)
    comps = wl.get_completions(p)
    for c in comps:
        if not bool(c.startswith(p)): return ("BAD", c)
    return len(comps)
outs = {}
def check(res, eng):
    if res[0] != "ok" or isinstance(res[1], tuple):
        eng.solver.check(); return (res, eng.solver.model())
    outs[res[1]] = outs.get(res[1], 0) + 1
    return None
t0 = time.time(); r = S.explore(harness, check); print("N", N, r[:3] if r[0]=="ok" else r, "%.1fs" % (time.time()-t0)); print(sorted(outs.items())[:10])
