import os, posixpath
from types import SimpleNamespace
from wormhole.cli import cmd_receive as R

class _FS:
    exists = False
    isdir = False
FS = _FS()
KNOWN = ("/", "/w", "/w/cwd")
class _Path:
    abspath = staticmethod(posixpath.abspath)
    join = staticmethod(posixpath.join)
    basename = staticmethod(posixpath.basename)
    dirname = staticmethod(posixpath.dirname)
    @staticmethod
    def exists(p):
        if p in KNOWN: return True
        return FS.exists
    @staticmethod
    def isdir(p):
        if p in KNOWN: return True
        return FS.isdir
    @staticmethod
    def isfile(p):
        if p in KNOWN: return False
        return FS.exists and not FS.isdir
class _OS:
    path = _Path
    sep = "/"
    removed = []
    @staticmethod
    def remove(p): _OS.removed.append(p)
    @staticmethod
    def getcwd(): return "/w/cwd"
    @staticmethod
    def fspath(p): return p
R.os = _OS
posixpath.os = _OS  # abspath -> os.getcwd

def decide(destname: str, exists: bool, isdir: bool) -> bool:
    """
    pre: len(destname) <= 4
    post: _ == True
    """
    FS.exists = exists; FS.isdir = isdir
    args = SimpleNamespace(output_file=None, cwd="/w/cwd", accept_file=True, stderr=None)
    r = R.Receiver.__new__(R.Receiver)
    r.args = args
    r._msg = lambda *a, **k: None
    try:
        out = r._decide_destname("file", destname)
    except R.TransferRejectedError:
        return True
    return posixpath.dirname(out) == "/w/cwd" and posixpath.basename(out) != "" and not exists
