"""probe: two real dilation Managers + real Connectors over an in-memory network with ideal Noise"""
import os, sys
from collections import deque
from zope.interface import implementer, directlyProvides
from twisted.internet.task import Clock, Cooperator
from twisted.internet import defer, interfaces, address, protocol
from twisted.internet.interfaces import ITransport, IConsumer
from wormhole.eventual import EventualQueue
from wormhole import _interfaces, ipaddrs
from wormhole._dilation import manager as M, connector as CN, connection as CX, _noise
from wormhole.util import bytes_to_dict

# ---- ideal noise -------------------------------------------------------
class NoiseInvalidMessage(Exception): pass
CX.NoiseInvalidMessage = NoiseInvalidMessage
class IdealNoise:
    def __init__(self): self.psk=None; self.init=None; self.tx=0; self.rx=0; self.hs=0
    @classmethod
    def from_name(cls, n): return cls()
    def set_psks(self, k): self.psk=k
    def set_as_initiator(self): self.init=True
    def set_as_responder(self): self.init=False
    def start_handshake(self): pass
    def write_message(self):
        self.hs+=1; return b"HS[" + self.psk + (b"i" if self.init else b"r") + b"]"
    def read_message(self, m):
        exp = b"HS[" + self.psk + (b"r" if self.init else b"i") + b"]"
        if m != exp: raise NoiseInvalidMessage()
        self.hs+=1; return b""
    def encrypt(self, p):
        c = b"N[" + self.psk + (b"i" if self.init else b"r") + b"%d|" % self.tx + p + b"]" + b"\0"*(16-6-len(self.psk)-len(b"%d"%self.tx)) if False else b"N[" + self.psk + (b"i" if self.init else b"r") + b"%d|" % self.tx + p + b"]"
        self.tx+=1; return c
    def decrypt(self, c):
        pre = b"N[" + self.psk + (b"r" if self.init else b"i") + b"%d|" % self.rx
        if not (c.startswith(pre) and c.endswith(b"]")): raise NoiseInvalidMessage()
        self.rx+=1; return c[len(pre):-1]
CN.NoiseConnection = IdealNoise
CN.build_noise = lambda: IdealNoise()
ipaddrs.find_addresses = lambda: ["127.0.0.1"]

# ---- in-memory network -------------------------------------------------
@implementer(ITransport, IConsumer, interfaces.IPushProducer)
class Pipe:
    def __init__(self, net, name): self.net=net; self.name=name; self.peer=None; self.proto=None; self.buf=deque(); self.closed=False; self.producer=None; self.paused=False
    def write(self, data):
        if not self.closed: self.peer.buf.append(data)
    def loseConnection(self):
        if not self.closed:
            self.closed=True; self.net.closing.append(self)
    def registerProducer(self, p, streaming): self.producer=p
    def unregisterProducer(self): self.producer=None
    def pauseProducing(self): self.paused=True
    def resumeProducing(self): self.paused=False
    def stopProducing(self): pass
    def getPeer(self): return address.IPv4Address("TCP","127.0.0.1",1)
    def getHost(self): return address.IPv4Address("TCP","127.0.0.1",2)

class Port:
    def __init__(self, net, factory, port): self.net=net; self.factory=factory; self.port=port
    def getHost(self): return address.IPv4Address("TCP","127.0.0.1",self.port)
    def stopListening(self):
        self.net.ports.pop(self.port, None); return defer.succeed(None)

class Net:
    def __init__(self): self.ports={}; self.next=10000; self.pending=[]; self.links=[]; self.closing=[]
class Reactor(Clock):
    def __init__(self, net): Clock.__init__(self); self.net=net
    def listenTCP(self, port, factory, backlog=50, interface=""):
        p = self.net.next; self.net.next+=1
        lp = Port(self.net, factory, p); self.net.ports[p]=lp; factory.doStart(); return lp
    def connectTCP(self, host, port, factory, timeout=30, bindAddress=None):
        c = {"host":host,"port":port,"factory":factory,"cancelled":False}
        self.net.pending.append(c)
        class Conn:
            def stopConnecting(s): c["cancelled"]=True
            def disconnect(s): c["cancelled"]=True
            def getDestination(s): return address.IPv4Address("TCP",host,port)
        factory.doStart(); factory.startedConnecting(Conn()); return Conn()
    # IReactorCore bits endpoints may touch
    def callWhenRunning(self, f,*a,**k): f(*a,**k)
    def addSystemEventTrigger(self,*a,**k): pass
    def removeSystemEventTrigger(self,*a): pass
directlyProvides_done=False

def establish(net, c):
    """complete a pending TCP connect"""
    net.pending.remove(c)
    if c["cancelled"]: return None
    lp = net.ports.get(c["port"])
    if lp is None:
        from twisted.internet.error import ConnectionRefusedError
        from twisted.python.failure import Failure
        c["factory"].clientConnectionFailed(None, Failure(ConnectionRefusedError())); return None
    a = Pipe(net,"out"); b = Pipe(net,"in"); a.peer=b; b.peer=a
    pa = c["factory"].buildProtocol(a.getPeer()); pb = lp.factory.buildProtocol(b.getPeer())
    a.proto=pa; b.proto=pb
    pa.makeConnection(a); pb.makeConnection(b)
    net.links.append((a,b)); return (a,b)

def pump(net, eqs, clocks, maxit=200):
    for _ in range(maxit):
        prog=False
        for c in list(net.pending):
            establish(net, c); prog=True
        for (a,b) in list(net.links):
            for t in (a,b):
                while t.buf and not t.closed:
                    d=t.buf.popleft(); prog=True
                    t.proto.dataReceived(d)
        for t in list(net.closing):
            net.closing.remove(t); prog=True
            for x in (t, t.peer):
                if x.proto is not None and not getattr(x,"lost",False):
                    x.lost=True; x.closed=True
                    from twisted.python.failure import Failure
                    from twisted.internet.error import ConnectionDone
                    x.proto.connectionLost(Failure(ConnectionDone()))
            net.links=[l for l in net.links if t not in l]
        for clk in clocks:
            if clk.getDelayedCalls():
                clk.advance(0); prog=True
        if not prog: break

class Sender:
    def __init__(self): self.out=deque()
    def send(self, phase, plaintext): self.out.append((phase, plaintext))
    def got_verified_key(self, key): pass

def mk(net, side):
    clk = Reactor(net); eq = EventualQueue(clk); coop = Cooperator(scheduler=eq.eventually)
    s = Sender(); directlyProvides(s, _interfaces.ISend)
    m = M.Manager(s, side, None, clk, eq, coop, ["ged"], 30.0, None, False, None)
    m.got_dilation_key(b"K"*4)
    return m, s, clk

if __name__ == "__main__":
    from twisted.internet import endpoints
    net = Net()
    A, sa, ca = mk(net, "aa"*8); B, sb, cb = mk(net, "bb"*8)
    def st(m): return getattr(m, type(m).m._symbol)._state.method.__name__
    A.got_wormhole_versions({"can-dilate":["ged"]}); B.got_wormhole_versions({"can-dilate":["ged"]})
    def xfer():
        n=0
        while sa.out or sb.out:
            if sa.out: ph,pt = sa.out.popleft(); B.received_dilation_message(pt); n+=1
            if sb.out: ph,pt = sb.out.popleft(); A.received_dilation_message(pt); n+=1
        return n
    for i in range(10):
        n = xfer(); pump(net, None, [ca, cb])
        print(i, st(A), st(B), A._my_role, B._my_role, "ports", list(net.ports), "links", len(net.links))
        if n==0 and not sa.out and not sb.out: break
    print("A conn", A._connection, "B conn", B._connection)
    # lose the link from B's side
    if A._connection:
        B._connection.transport.loseConnection()
        for i in range(10):
            pump(net, None, [ca, cb]); n = xfer(); pump(net,None,[ca,cb])
            print("re", i, st(A), st(B), "links", len(net.links))
            if n==0: break
