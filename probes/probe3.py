from typing import List
from probe_mailbox import build
from automat import NoTransition
from crosshair.tracers import NoTracing

def run(a: int, b: int, p1: int, p2: int) -> bool:
    """
    pre: 0 <= a < 6 and 0 <= b < 6
    pre: 0 <= p1 < 3 and 0 <= p2 < 3
    post: _ == True
    """
    with NoTracing():
        m, rc, n, o, t = build()
    connected = False
    have_mbox = False
    for i, ev in enumerate([a, b]):
        try:
            if ev == 0:
                if connected: continue
                m.connected(); connected = True
            elif ev == 1:
                if not connected: continue
                m.lost(); connected = False
            elif ev == 2:
                if have_mbox: continue
                m.got_mailbox("mb"); have_mbox = True
            elif ev == 3:
                m.add_message(str(p1), b"x")
            elif ev == 4:
                if not (connected and have_mbox): continue
                m.rx_message("side2", str(p2), b"y")
            elif ev == 5:
                if not (connected and have_mbox): continue
                m.rx_message("side1", str(p1), b"x")
        except NoTransition:
            return False
    phases = [g[1] for g in o.got]
    return len(phases) == len(set(phases))
