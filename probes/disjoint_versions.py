import sys
sys.path.insert(0,'/verif')
from symrun import loader; loader.install()
from harness.fullstack import FSim
from env import full as F, client as CL
from wormhole import wormhole as WMOD
# side B advertises (and accepts) only a dilation version A does not know
orig_init = F.FSide.__init__
def init(self, world, i, dilation=True):
    if i == 1:
        old = WMOD.DILATION_VERSIONS
        WMOD.DILATION_VERSIONS = ["future-wizard"]
        try:
            orig_init(self, world, i, dilation)
        finally:
            WMOD.DILATION_VERSIONS = old
    else:
        orig_init(self, world, i, dilation)
F.FSide.__init__ = init
sim = FSim(app=True)
tr = sim.canonical()
w = sim.w
print(len(tr), [s.state() for s in w.sides], w.logged, [s.errors for s in w.sides], w.mw.no_transitions)
print([e for s in w.sides for e in s.applog][:6], sim.connect_d)
sim.do(("stop","A")); sim.do(("stop","B")); sim.settle()
print([s.state() for s in w.sides], [s.stopped for s in w.sides], w.logged, len(w.net.links), w.net.ports)
