import sys, time, z3, builtins
import symrun as S
from symrun import SymInt, SymBytes, SymBool
from wormhole import transit as T
from nacl.exceptions import CryptoError

# ---- shadows in transit namespace
def sym_hexlify(b):
    if isinstance(b, SymBytes): return ("HEX", b)
    from binascii import hexlify; return hexlify(b)
def sym_int(x, base=10):
    if isinstance(x, tuple) and x[0] == "HEX":
        b = x[1]
        if len(b.e) == 0: raise ValueError("empty")
        r = SymInt(z3.BV2Int(z3.Concat(*[S._b(e) for e in b.e]) if len(b.e) > 1 else S._b(b.e[0])))
        return r
    return builtins.int(x, base)
T.hexlify = sym_hexlify; T.int = sym_int
class Box:
    """ideal AEAD on the receive side: honest ciphertexts are registered objects"""
    honest = {}
    def __init__(self, key): self.key = key
    def decrypt(self, enc):
        # enc is SymBytes: nonce(24) + body ; honest iff equals a registered honest ciphertext
        for ct, pt in Box.honest.items():
            if len(ct) == len(enc) and bool(enc == SymBytes(list(ct))): return pt
        raise CryptoError("bad")
class Tr:
    def __init__(self): self.lost = False; self.w = []
    def write(self, d): self.w.append(d)
    def loseConnection(self): self.lost = True
class Owner:
    is_sender = False
def mkconn():
    c = T.Connection(Owner(), None, 0, "desc")
    c.transport = Tr(); c.setTimeout = lambda t: None
    c.state = "records"; c.receive_box = Box(b"k"); c.next_receive_nonce = 0
    return c
def frame(nonce, ptlen):
    ct = nonce.to_bytes(24, "big") + bytes([0xC0 + nonce]) * (ptlen + 16)
    return len(ct).to_bytes(4, "big") + ct, ct
NREC = 2
def harness():
    Box.honest = {}
    stream = b""; pts = []
    for i in range(NREC):
        f, ct = frame(i, 1 + i); pt = b"P%d" % i; Box.honest[ct] = pt; pts.append(pt); stream += f
    # adversary: one byte of the stream replaced by an arbitrary symbolic byte at a chosen position
    pos = S.ENG.choose(len(stream)) if hasattr(S.ENG, "choose") else None
    elems = list(stream)
    x = z3.BitVec("x", 8)
    pos_v = z3.Int("pos"); S.ENG.solver.add(pos_v >= 0, pos_v < len(stream))
    # fork on position
    p = None
    for i in range(len(stream)):
        if bool(SymBool(pos_v == i)): p = i; break
    elems[p] = x
    data = SymBytes(elems)
    # chunking: one symbolic cut
    cut_v = z3.Int("cut"); S.ENG.solver.add(cut_v >= 0, cut_v <= len(stream))
    cut = None
    for i in range(len(stream) + 1):
        if bool(SymBool(cut_v == i)): cut = i; break
    c = mkconn(); got = []
    c.recordReceived = lambda r: got.append(r)
    for chunk in (data[:cut], data[cut:]):
        try:
            c.dataReceived(chunk)
        except (T.BadNonce, CryptoError, ValueError) as e:
            pass
    # oracle: delivered is a prefix of pts; if x differs from original byte, record containing pos not delivered
    changed = bool(SymBool(x != stream[p]))
    ok = got == pts[:len(got)]
    if changed:
        # which record does pos fall in
        off = 0; idx = None
        for i in range(NREC):
            f, _ = frame(i, 1 + i)
            if off <= p < off + len(f): idx = i
            off += len(f)
        stalled = (not c.transport.lost) and c.state == "records" and len(c.buf) > 0
        ok = ok and len(got) <= idx and ((c.transport.lost and c.state == "hung up") or stalled)
        outs["stall" if stalled else "drop"] = outs.get("stall" if stalled else "drop", 0) + 1
    else:
        ok = ok and len(got) == NREC
    return ok
outs = {}
def check(res, eng):
    if res[0] != "ok" or res[1] is not True:
        eng.solver.check(); return (res, eng.solver.model())
    return None
t0 = time.time(); r = S.explore(harness, check); print(outs, r if r[0] != "ok" else r[:3], "%.1fs" % (time.time() - t0))
