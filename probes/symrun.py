"""probe: tiny native symbolic executor (fork by re-execution), z3-backed proxies"""
import z3, builtins, time

class Escape(Exception): pass
class _Abort(BaseException): pass

class Engine:
    def __init__(self):
        self.solver = z3.Solver()
        self.decisions = []   # prefix to follow
        self.pos = 0
        self.trail = []       # decisions made on this path
        self.pc = []
        self.nq = 0
    def branch(self, cond):
        """cond: z3 Bool. returns python bool, forking."""
        cond = z3.simplify(cond)
        if z3.is_true(cond): return True
        if z3.is_false(cond): return False
        if self.pos < len(self.decisions):
            d = self.decisions[self.pos]
        else:
            # choose True first if feasible
            self.nq += 1
            self.solver.push(); self.solver.add(cond); r = self.solver.check(); self.solver.pop()
            d = (r == z3.sat)
            if d:
                self.nq += 1
                self.solver.push(); self.solver.add(z3.Not(cond)); r2 = self.solver.check(); self.solver.pop()
                self.trail.append((True, r2 == z3.sat))   # (taken, other feasible)
            else:
                self.trail.append((False, False))
            self.pos += 1
            c = cond if d else z3.Not(cond)
            self.solver.add(c); self.pc.append(c)
            return d
        self.trail.append(self.decisions_meta[self.pos])
        self.pos += 1
        c = cond if d else z3.Not(cond)
        self.solver.add(c); self.pc.append(c)
        return d

ENG = None

def explore(fn, check):
    """run fn() over all paths; check(result, pc) -> None or counterexample model"""
    global ENG
    stack = [([], [])]
    npaths = 0; nq = 0
    t0 = time.time()
    while stack:
        dec, meta = stack.pop()
        ENG = Engine(); ENG.decisions = dec; ENG.decisions_meta = meta
        try:
            res = ("ok", fn())
        except _Abort:
            continue
        except Exception as e:
            res = ("exc", e)
        npaths += 1; nq += ENG.nq
        cex = check(res, ENG)
        if cex is not None:
            return ("cex", cex, npaths)
        # schedule siblings: for each new decision beyond prefix where other side feasible
        tr = ENG.trail
        taken = [t for t, _ in tr]
        for i in range(len(dec), len(tr)):
            if tr[i][1]:
                nd = taken[:i] + [not taken[i]]
                nm = tr[:i] + [(not taken[i], False)]
                stack.append((nd, nm))
    return ("ok", npaths, nq, time.time() - t0)

class SymBool:
    def __init__(self, t): self.t = t
    def __bool__(self): return ENG.branch(self.t)
    def __invert__(self): return SymBool(z3.Not(self.t))

def _z(x, w=None):
    if isinstance(x, SymInt): return x.t
    if isinstance(x, builtins.int): return z3.IntVal(x)
    raise Escape(repr(x))

class SymInt:
    def __init__(self, t): self.t = t
    def __add__(self, o): return SymInt(self.t + _z(o))
    __radd__ = __add__
    def __sub__(self, o): return SymInt(self.t - _z(o))
    def __rsub__(self, o): return SymInt(_z(o) - self.t)
    def __le__(self, o): return SymBool(self.t <= _z(o))
    def __lt__(self, o): return SymBool(self.t < _z(o))
    def __ge__(self, o): return SymBool(self.t >= _z(o))
    def __gt__(self, o): return SymBool(self.t > _z(o))
    def __eq__(self, o):
        if isinstance(o, (SymInt, builtins.int)): return SymBool(self.t == _z(o))
        return False
    def __ne__(self, o): return SymBool(self.t != _z(o))
    def __hash__(self): raise Escape("hash of SymInt")
    def __index__(self): raise Escape("index of SymInt")
    def __int__(self): raise Escape("int of SymInt")

class SymBytes:
    """concrete length, each element a z3 BV8 (or python int)"""
    def __init__(self, elems): self.e = list(elems)
    def __len__(self): return len(self.e)
    def __getitem__(self, k):
        if isinstance(k, slice):
            k = slice(_conc(k.start, len(self.e)), _conc(k.stop, len(self.e)), k.step)
            return SymBytes(self.e[k])
        return self.e[k]
    def __add__(self, o): return SymBytes(self.e + _elems(o))
    def __radd__(self, o): return SymBytes(_elems(o) + self.e)
    def __eq__(self, o):
        oe = _elems(o)
        if len(oe) != len(self.e): return False
        return SymBool(z3.And([_b(a) == _b(b) for a, b in zip(self.e, oe)]) if oe else z3.BoolVal(True))
    def __ne__(self, o):
        r = self.__eq__(o)
        return (not r) if isinstance(r, bool) else SymBool(z3.Not(r.t))
    def startswith(self, o):
        oe = _elems(o)
        if len(oe) > len(self.e): return False
        return self[:len(oe)] == SymBytes(oe)
    def __hash__(self): raise Escape("hash SymBytes")
def _conc(v, n):
    """concretise a SymInt slice bound by forking over 0..n (values above n clamp to n)"""
    if not isinstance(v, SymInt): return v
    for i in range(n + 1):
        if bool(SymBool(v.t == i)): return i
    if bool(SymBool(v.t > n)): return n
    return 0
def _b(x): return x if z3.is_expr(x) else z3.BitVecVal(x, 8)
def _elems(o):
    if isinstance(o, SymBytes): return list(o.e)
    if isinstance(o, (bytes, bytearray)): return list(o)
    raise Escape(repr(o))
