import z3, builtins, sys, time
import symrun as S
from symrun import SymInt, SymBytes, SymBool
from wormhole._dilation import connection as C, encode as E

def sym_isinstance(x, t):
    ts = t if isinstance(t, tuple) else (t,)
    if isinstance(x, SymInt): return builtins.int in ts
    if isinstance(x, SymBytes): return builtins.bytes in ts
    return isinstance(x, t)
class _Struct:
    @staticmethod
    def pack(fmt, v):
        assert fmt == ">L"
        if isinstance(v, SymInt):
            if getattr(v, "be4", None) is not None: return SymBytes(v.be4)
            bs = [z3.BitVec("pk%d_%d" % (id(v) % 100000, i), 8) for i in range(4)]
            S.ENG.solver.add(v.t == z3.BV2Int(z3.Concat(*bs)))
            out = SymBytes(bs); return out
        import struct; return struct.pack(fmt, v)
    @staticmethod
    def unpack(fmt, b):
        assert fmt == ">L"
        if isinstance(b, SymBytes):
            r = SymInt(z3.BV2Int(z3.Concat(*[S._b(x) for x in b.e]))); r.be4 = list(b.e)
            return (r,)
        import struct; return struct.unpack(fmt, b)
E.struct = _Struct; E.isinstance = sym_isinstance; C.isinstance = sym_isinstance

N = int(sys.argv[1]) if len(sys.argv) > 1 else 3
def harness():
    seq = SymInt(z3.Int("seq")); scid = SymInt(z3.Int("scid"))
    S.ENG.solver.add(seq.t >= 0, seq.t < 2**32, scid.t >= 0, scid.t < 2**32)
    payload = SymBytes([z3.BitVec(f"p{i}", 8) for i in range(N)])
    r = C.Data(seq, scid, payload)
    enc = C.encode_record(r)
    out = C.parse_record(enc)
    return bool(out == r) and type(out) is C.Data

def check(res, eng):
    if res[0] != "ok" or res[1] is not True:
        eng.solver.check()
        return (res, eng.solver.model())
    return None
t0 = time.time()
print(S.explore(harness, check), "%.2fs" % (time.time() - t0))

# frame parser from arbitrary 1+9+N bytes: decode any plaintext -> never yields wrong type silently
def harness2():
    pt = SymBytes([z3.BitVec(f"b{i}", 8) for i in range(9 + N)])
    try:
        r = C.parse_record(pt)
    except ValueError:
        return "reject"
    except UnicodeDecodeError:
        return "reject"
    return bool(C.encode_record(r) == pt) or type(r).__name__
C.log = type("L", (), {"err": staticmethod(lambda *a, **k: None)})
def sym_str(x, enc=None):
    if isinstance(x, SymBytes): raise ValueError("symbolic decode")  # probe: treat as reject
    return builtins.str(x, enc) if enc else builtins.str(x)
C.str = sym_str
res = []
def check2(r, eng):
    res.append(r[1] if r[0]=="ok" else repr(r[1])); return None
print(S.explore(harness2, check2)); print(sorted(set(map(str,res))))
