import os, json, copy, sys, time, hashlib
from collections import deque
from twisted.internet.task import Clock
from twisted.internet import defer
import wormhole
from wormhole import wormhole as wmod, _rendezvous, _key, _boss
from wormhole.eventual import EventualQueue
from wormhole.util import dict_to_bytes, bytes_to_dict, bytes_to_hexstr, hexstr_to_bytes
from nacl.exceptions import CryptoError
from automat import NoTransition

# ---------- stubs -------------
class FakeService:
    def __init__(self, ep, f, **kw): self.started=False; self.stop_d=None
    def whenConnected(self, failAfterFailures=None): return defer.Deferred()
    def startService(self): self.started=True
    def stopService(self):
        self.stop_d = defer.Deferred(); return self.stop_d

class FakeSPAKE:
    def __init__(self, pw, idSymmetric=None): self.pw=pw; self.id=idSymmetric
    def start(self): return b"P(" + self.pw + b")"
    def finish(self, msg):
        if not (msg.startswith(b"P(") and msg.endswith(b")")): raise Exception("bad pake")
        other = msg[2:-1]
        a,b = sorted([self.pw, other])
        return (b"K(" + a + b"," + b + b")").ljust(32, b"_")[:32] if a==b else (b"X(" + self.pw + b"," + other + b")").ljust(32,b"_")[:32]

class FakeBox:
    KEY_SIZE=32; NONCE_SIZE=24
    def __init__(self, key): self.key=key
    def encrypt(self, pt, nonce=None): return b"E[" + self.key + b"|" + pt + b"]"
    def decrypt(self, ct):
        pre = b"E[" + self.key + b"|"
        if ct.startswith(pre) and ct.endswith(b"]"): return ct[len(pre):-1]
        raise CryptoError("bad")

_key.SPAKE2_Symmetric = FakeSPAKE
_key.SecretBox = FakeBox
_key.utils.random = lambda n: b"\0"*n
_rendezvous.internet.ClientService = FakeService
_key.HKDF = lambda skm, outlen, salt=None, CTXinfo=b"": (b"H(" + skm.rstrip(b"_") + b";" + hashlib.sha256(CTXinfo).hexdigest()[:6].encode() + b")").ljust(outlen, b"_")[:outlen]
import wormhole._receive as _receive
_receive.derive_key = _key.derive_key

class WS:
    def __init__(self): self.sent=[]
    def sendMessage(self, payload, isBinary):
        d = bytes_to_dict(payload); d.pop("id", None); self.sent.append(d)

class Dg:
    def __init__(self): self.ev=[]
    def wormhole_got_welcome(self, w): self.ev.append(("welcome",))
    def wormhole_got_code(self, c): self.ev.append(("code", c))
    def wormhole_got_unverified_key(self, k): self.ev.append(("key", k))
    def wormhole_got_verifier(self, v): self.ev.append(("verifier", v))
    def wormhole_got_versions(self, v): self.ev.append(("versions", json.dumps(v, sort_keys=True)))
    def wormhole_got_message(self, m): self.ev.append(("msg", m))
    def wormhole_closed(self, r): self.ev.append(("closed", repr(r)))

class Client:
    def __init__(self, side):
        self.clock = Clock()
        self.dg = Dg()
        real = os.urandom
        os.urandom = lambda n: bytes.fromhex(side)[:n].ljust(n, b"\1")
        try:
            self.w = wmod.create("appid", "ws://h:1/v1", self.clock, delegate=self.dg)
        finally:
            os.urandom = real
        self.b = self.w._boss
        self.rc = self.b._RC
        self.ws = None
        self.out = []   # tx log since last step
        self.err = None
    def do(self, ev):
        """returns list of outputs"""
        kind = ev[0]
        n_ev = len(self.dg.ev)
        try:
            if kind == "open":
                self.ws = WS(); self.rc.ws_open(self.ws)
            elif kind == "lost":
                ws=self.ws; self.ws=None; self.rc.ws_close(True, 1000, "x")
            elif kind == "rx":
                self.rc.ws_message(dict_to_bytes(ev[1]))
            elif kind == "set_code": self.w.set_code(ev[1])
            elif kind == "allocate": self.w.allocate_code(2)
            elif kind == "send": self.w.send_message(ev[1])
            elif kind == "close": self.w.close()
            elif kind == "stopped":
                d = self.rc._connector.stop_d; self.rc._connector.stop_d=None; d.callback(None)
            elif kind == "turn": self.clock.advance(0)
        except Exception as e:
            self.err = repr(e)
        sent = self.ws.sent[:] if self.ws else []
        if self.ws: self.ws.sent[:] = []
        return sent, self.dg.ev[n_ev:]

SKIP = {"_timing","_journal","_reactor","_tor","_B","_N","_M","_S","_O","_K","_R","_RC","_L","_A","_I","_C","_T","_D","_W","_SK","_eventual_queue","_cooperator","_evolve_status","_evolve_wormhole_status","_connector","_trace","_debug_record_inbound_f","_ws","_on_status_update","_current_wormhole_status","_start_timing", "_url","_appid","_client_version","_versions","_sp"}
def canon(v):
    if isinstance(v, (str,bytes,int,float,bool,type(None))): return v
    if isinstance(v, dict): return tuple((canon(k), canon(x)) for k,x in v.items())
    if isinstance(v, (set, frozenset)): return tuple(sorted(canon(x) for x in v))
    if isinstance(v, (list, tuple, deque)): return tuple(canon(x) for x in v)
    if isinstance(v, BaseException): return repr(v)
    return type(v).__name__
def fp(c):
    b = c.b
    parts = []
    workers = dict(B=b,N=b._N,M=b._M,S=b._S,O=b._O,K=b._K,SK=b._K._SK,R=b._R,RC=b._RC,L=b._L,A=b._A,I=b._I,C=b._C,T=b._T)
    for name, o in workers.items():
        st = None
        m = getattr(type(o), "m", None)
        if m is not None:
            tr = getattr(o, m._symbol, None)
            st = tr._state.method.__name__ if tr is not None else "<init>"
        fields = tuple(sorted((k, canon(v)) for k,v in vars(o).items() if k not in SKIP and not k.startswith("_symbol_")))
        parts.append((name, st, fields))
    parts.append(("ws", c.ws is not None, c.rc._connector.stop_d is not None, c.err))
    parts.append(("w_key", c.w._key))
    parts.append(("eq", len(b._eventual_queue._calls)))
    return tuple(parts)
