"""Tiny regex subset with *Python's* semantics, usable three ways:
  * parse(pattern)                      -> items/anchors
  * match_symstr(pattern, SymStr)       -> bool | SymBool   (element-wise, for symrun; stands in for re.search/re.match)
  * to_z3(pattern)                      -> z3 regular expression over z3 strings (for language-inclusion queries)

Supported: optional leading ^, a sequence of atoms (literal, escaped literal, \\d, \\s, \\w, ., [class]) each with
an optional quantifier + * ?, capturing groups around atoms are transparent, trailing $ or \\Z.  Python semantics kept:
`$` also matches just before a final newline; \\d is the Unicode decimal-digit class as implemented by the running
`re` module (computed by asking `re` about every code point once).  Anything else raises Unsupported.
"""
import re as _re
import builtins
import functools
import z3
from .values import SymStr, SymBool, SymEnum, sym_or, sym_and, zcp, _selems
from .core import Escape


class Unsupported(Exception):
    pass


@functools.lru_cache(None)
def class_ranges(esc):
    """ranges of code points matched by the one-character pattern `esc` according to the real re module"""
    pat = _re.compile(esc)
    out = []
    start = None
    for c in range(0x110000):
        if 0xD800 <= c <= 0xDFFF:
            hit = False
        else:
            hit = pat.fullmatch(chr(c)) is not None
        if hit and start is None:
            start = c
        if not hit and start is not None:
            out.append((start, c - 1))
            start = None
    if start is not None:
        out.append((start, 0x10FFFF))
    return tuple(out)


def parse(p):
    i = 0
    anch_start = False
    if p.startswith("^"):
        anch_start = True
        i = 1
    items = []
    end = None
    n = len(p)
    while i < n:
        ch = p[i]
        if ch in "()":
            i += 1
            continue
        if ch == "$" and i == n - 1:
            end = "$"
            i += 1
            continue
        if ch == "\\":
            nx = p[i + 1]
            if nx == "Z" and i + 2 == n:
                end = "Z"
                i += 2
                continue
            if nx in "dsw":
                atom = ("class", "\\" + nx)
            elif nx in "DSWbBAZ0123456789":
                raise Unsupported(p)
            else:
                atom = ("lit", nx)
            i += 2
        elif ch == "[":
            j = p.index("]", i + 1)
            atom = ("class", p[i:j + 1])
            i = j + 1
        elif ch == ".":
            atom = ("class", ".")
            i += 1
        elif ch in "+*?{|":
            raise Unsupported(p)
        else:
            atom = ("lit", ch)
            i += 1
        q = (1, 1)
        if i < n and p[i] in "+*?":
            q = {"+": (1, None), "*": (0, None), "?": (0, 1)}[p[i]]
            i += 1
            if i < n and p[i] in "+?":
                raise Unsupported(p)
        items.append((atom, q))
    return anch_start, items, end


def _in_atom(cp, atom):
    """cp: z3 Int term or 1-char str -> bool | z3 Bool"""
    kind, v = atom
    if kind == "lit":
        if isinstance(cp, builtins.str):
            return cp == v
        return cp == ord(v)
    rs = class_ranges(v)
    if isinstance(cp, builtins.str):
        c = ord(cp)
        return any(a <= c <= b for a, b in rs)
    return z3.Or([z3.And(cp >= a, cp <= b) if a != b else cp == a for a, b in rs]) if rs else z3.BoolVal(False)


def _zb(x):
    return z3.BoolVal(x) if isinstance(x, bool) else x


def match_symstr(pattern, s, mode="search"):
    """truth of re.search(pattern, s) (mode search, pattern must start with ^) or re.match (mode match)"""
    anch, items, end = parse(pattern)
    if not anch and mode == "search":
        raise Unsupported("unanchored search: %r" % pattern)
    # re.match anchors at the start by itself
    cps = _selems(s)
    n = len(cps)
    m = len(items)
    # f[j][i]: items[:j] can consume exactly cps[:i]
    f = [[z3.BoolVal(False)] * (n + 1) for _ in range(m + 1)]
    f[0][0] = z3.BoolVal(True)
    for j, (atom, (lo, hi)) in enumerate(items):
        member = [_zb(_in_atom(c, atom)) for c in cps]
        for i in range(n + 1):
            alts = []
            run = z3.BoolVal(True)
            k = 0
            while True:
                if k >= lo and (hi is None or k <= hi):
                    alts.append(z3.And(f[j][i - k], run))
                if i - k - 1 < 0 or (hi is not None and k + 1 > hi):
                    break
                run = z3.And(run, member[i - k - 1])
                k += 1
            f[j + 1][i] = z3.simplify(z3.Or(alts)) if alts else z3.BoolVal(False)
    if end == "Z":
        res = f[m][n]
    elif end == "$":
        res = f[m][n]
        if n >= 1:
            last_nl = (cps[n - 1] == "\n") if isinstance(cps[n - 1], builtins.str) else (cps[n - 1] == 10)
            res = z3.Or(res, z3.And(f[m][n - 1], _zb(last_nl)))
    else:
        res = z3.Or([f[m][i] for i in range(n + 1)])
    res = z3.simplify(res)
    if z3.is_true(res):
        return True
    if z3.is_false(res):
        return False
    return SymBool(res)


class SymReModule:
    """stands in for the `re` module inside a repo module: search()/match() on SymStr via match_symstr,
    real re otherwise.  A truthy result is a dummy match object (only truthiness / group(1) of a trailing
    \\d+ group are supported)."""
    def __init__(self):
        self.patterns = []

    def __getattr__(self, name):
        return getattr(_re, name)

    def _do(self, pattern, s, mode):
        if isinstance(s, SymEnum):
            s = s.get()         # finite choice: fork over the alternatives, then the real re decides
        if isinstance(s, SymStr) and not s.is_concrete():
            self.patterns.append(pattern)
            r = match_symstr(pattern, s, mode)
            if isinstance(r, bool):
                return _M(pattern, s) if r else None
            return _M(pattern, s) if bool(r) else None
        if isinstance(s, SymStr):
            s = s.concrete()
        return getattr(_re, mode)(pattern, s)

    def search(self, pattern, s, flags=0):
        return self._do(pattern, s, "search")

    def match(self, pattern, s, flags=0):
        return self._do(pattern, s, "match")


class _M:
    def __init__(self, pattern, s):
        self.pattern, self.s = pattern, s

    def group(self, i=0):
        if i == 0:
            return self.s
        raise Escape("match.group(%d) on a symbolic match" % i)


def to_z3(pattern):
    """z3 regex for the set of strings s with re.search(pattern, s) (pattern anchored with ^)"""
    anch, items, end = parse(pattern)
    if not anch:
        raise Unsupported(pattern)
    parts = []
    for atom, (lo, hi) in items:
        kind, v = atom
        if kind == "lit":
            r = z3.Re(v)
        else:
            r = ranges_re(class_ranges(v))
        if (lo, hi) == (1, None):
            r = z3.Plus(r)
        elif (lo, hi) == (0, None):
            r = z3.Star(r)
        elif (lo, hi) == (0, 1):
            r = z3.Option(r)
        parts.append(r)
    body = z3.Concat(*parts) if len(parts) > 1 else parts[0]
    if end == "Z":
        return body
    if end == "$":
        return z3.Concat(body, z3.Option(z3.Re("\n")))
    return z3.Concat(body, z3.Star(z3.AllChar(z3.ReSort(z3.StringSort()))))


def _zchr(c):
    return z3.StringVal(chr(c)) if c < 128 and chr(c).isprintable() and chr(c) not in '\\"' else z3.Unit(z3.CharVal(c))


def ranges_re(rs):
    alts = []
    for a, b in rs:
        alts.append(z3.Range(_zchr(a), _zchr(b)) if a != b else z3.Re(_zchr(a)))
    if not alts:
        return z3.Empty(z3.ReSort(z3.StringSort()))
    return z3.Union(*alts) if len(alts) > 1 else alts[0]
