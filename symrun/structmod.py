"""struct facade: with concrete operands every function is the real struct's; with a symbolic integer / symbolic bytes the fixed-width
big/little-endian formats (one item) are exact linear arithmetic over the paired byte views of symrun.values.

The import hook binds the name `struct` of every repo module to this facade right after its `import struct`, so that code which binds
pack/unpack functions or precompiled `struct.Struct(...)` objects at import time still reaches the model."""
import struct as _real
import z3
from . import core
from .values import SymInt, SymBytes, be_encode, be_decode

error = _real.error
SIZES = {"B": 1, "H": 2, "L": 4, "I": 4, "Q": 8, "b": 1, "h": 2, "l": 4, "i": 4, "q": 8}


def _fmt(fmt):
    if isinstance(fmt, bytes):
        fmt = fmt.decode()
    if len(fmt) == 2 and fmt[0] in "<>!" and fmt[1] in SIZES:
        return fmt[0] != "<", SIZES[fmt[1]], fmt[1].islower()
    raise core.Escape("struct format %r with symbolic operand" % (fmt,))


def _items(fmt):
    """parse a standard-size format (explicit byte order) into [(count, code)]; None if it uses something else"""
    import re
    if isinstance(fmt, bytes):
        fmt = fmt.decode()
    if not fmt or fmt[0] not in "<>!":
        return None
    out = []
    for cnt, code in re.findall(r"(\d*)([a-zA-Z?])", fmt[1:].replace(" ", "")):
        if code not in SIZES and code not in "csx":
            return None
        out.append((int(cnt) if cnt else None, code))
    if "".join("%s%s" % ("" if c is None else c, k) for c, k in out) != fmt[1:].replace(" ", ""):
        return None
    return fmt[0] != "<", out


def _pack_one(big, code, v):
    n = SIZES[code]
    if isinstance(v, SymInt):
        full = 256 ** n
        if code.islower():
            if not (-(full // 2) <= v < full // 2):
                raise _real.error("argument out of range")
            v = SymInt(z3.simplify(z3.If(v.t < 0, v.t + full, v.t)))
        elif not (0 <= v < full):
            raise _real.error("argument out of range")
        b = be_encode(v, n)
        return list(b.e if big else b.e[::-1])
    return list(_real.pack((">" if big else "<") + code, v))


def _pack_multi(fmt, vals):
    parsed = _items(fmt)
    if parsed is None:
        raise core.Escape("struct format %r with symbolic operand" % (fmt,))
    big, items = parsed
    vals = list(vals)
    out = []
    for cnt, code in items:
        if code == "x":
            out += [0] * (cnt or 1)
        elif code == "s":
            n = 1 if cnt is None else cnt
            if not vals:
                raise _real.error("pack expected more items")
            v = vals.pop(0)
            if not isinstance(v, (bytes, bytearray, SymBytes)):
                raise _real.error("argument for 's' must be a bytes object")
            el = list(v.e) if isinstance(v, SymBytes) else list(v)
            el = el[:n] + [0] * (n - len(el[:n]))        # struct truncates or zero-pads to the field width, silently
            out += el
        elif code == "c":
            for _ in range(cnt or 1):
                v = vals.pop(0)
                if not isinstance(v, (bytes, bytearray)) or len(v) != 1:
                    raise _real.error("char format requires a bytes object of length 1")
                out += list(v)
        else:
            for _ in range(cnt or 1):
                if not vals:
                    raise _real.error("pack expected more items")
                out += _pack_one(big, code, vals.pop(0))
    if vals:
        raise _real.error("pack expected fewer items")
    return SymBytes(out)


def pack(fmt, *vals):
    if any(isinstance(v, (SymInt, SymBytes)) for v in vals) and (len(vals) != 1 or _items(fmt) is None or len(_items(fmt)[1]) != 1 or _items(fmt)[1][0][1] in "sc"):
        return _pack_multi(fmt, vals)
    if any(isinstance(v, SymInt) for v in vals):
        big, n, signed = _fmt(fmt)
        if len(vals) != 1:
            raise _real.error("pack expected 1 item")
        v = vals[0]
        full = 256 ** n
        if signed:
            if not (-(full // 2) <= v < full // 2):
                raise _real.error("argument out of range")
            v = SymInt(z3.simplify(z3.If(v.t < 0, v.t + full, v.t)))
        elif not (0 <= v < full):
            raise _real.error("argument out of range")
        b = be_encode(v, n)
        return b if big else SymBytes(b.e[::-1])
    return _real.pack(fmt, *vals)


def unpack(fmt, b):
    if isinstance(b, SymBytes):
        big, n, signed = _fmt(fmt)
        if len(b) != n:
            raise _real.error("unpack requires a buffer of %d bytes" % n)
        v = be_decode(b if big else SymBytes(b.e[::-1]))
        if signed:
            full = 256 ** n
            if isinstance(v, SymInt):
                v = SymInt(z3.simplify(z3.If(v.t >= full // 2, v.t - full, v.t)))
            elif v >= full // 2:
                v -= full
        return (v,)
    return _real.unpack(fmt, b)


class Struct:
    def __init__(self, fmt):
        self.format = fmt
        self._s = _real.Struct(fmt)
        self.size = self._s.size

    def pack(self, *vals):
        return pack(self.format, *vals)

    def unpack(self, b):
        return unpack(self.format, b)

    def __getattr__(self, k):
        return getattr(self._s, k)


def __getattr__(name):
    return getattr(_real, name)
