"""struct facade: with concrete operands every function is the real struct's; with a symbolic integer / symbolic bytes the fixed-width
big/little-endian formats (one item) are exact linear arithmetic over the paired byte views of symrun.values.

The import hook binds the name `struct` of every repo module to this facade right after its `import struct`, so that code which binds
pack/unpack functions or precompiled `struct.Struct(...)` objects at import time still reaches the model."""
import struct as _real
import z3
from . import core
from .values import SymInt, SymBytes, be_encode, be_decode

error = _real.error
SIZES = {"B": 1, "H": 2, "L": 4, "I": 4, "Q": 8, "b": 1, "h": 2, "l": 4, "i": 4, "q": 8}


def _fmt(fmt):
    if isinstance(fmt, bytes):
        fmt = fmt.decode()
    if len(fmt) == 2 and fmt[0] in "<>!" and fmt[1] in SIZES:
        return fmt[0] != "<", SIZES[fmt[1]], fmt[1].islower()
    raise core.Escape("struct format %r with symbolic operand" % (fmt,))


def pack(fmt, *vals):
    if any(isinstance(v, SymInt) for v in vals):
        big, n, signed = _fmt(fmt)
        if len(vals) != 1:
            raise _real.error("pack expected 1 item")
        v = vals[0]
        full = 256 ** n
        if signed:
            if not (-(full // 2) <= v < full // 2):
                raise _real.error("argument out of range")
            v = SymInt(z3.simplify(z3.If(v.t < 0, v.t + full, v.t)))
        elif not (0 <= v < full):
            raise _real.error("argument out of range")
        b = be_encode(v, n)
        return b if big else SymBytes(b.e[::-1])
    return _real.pack(fmt, *vals)


def unpack(fmt, b):
    if isinstance(b, SymBytes):
        big, n, signed = _fmt(fmt)
        if len(b) != n:
            raise _real.error("unpack requires a buffer of %d bytes" % n)
        v = be_decode(b if big else SymBytes(b.e[::-1]))
        if signed:
            full = 256 ** n
            if isinstance(v, SymInt):
                v = SymInt(z3.simplify(z3.If(v.t >= full // 2, v.t - full, v.t)))
            elif v >= full // 2:
                v -= full
        return (v,)
    return _real.unpack(fmt, b)


class Struct:
    def __init__(self, fmt):
        self.format = fmt
        self._s = _real.Struct(fmt)
        self.size = self._s.size

    def pack(self, *vals):
        return pack(self.format, *vals)

    def unpack(self, b):
        return unpack(self.format, b)

    def __getattr__(self, k):
        return getattr(self._s, k)


def __getattr__(name):
    return getattr(_real, name)
