"""Import hook: loads the repo's `wormhole.*` modules from the *current* source with a small
AST pass that reroutes the call shapes a pure proxy cannot intercept by itself:

  recv.METHOD(args)   ->  __sym_call__(recv, "METHOD", args)     (concrete str/bytes receiver,
                                                                   symbolic argument)
  a in b / a not in b ->  __sym_in__(a, b)                        (symbolic member of a concrete
                                                                   container / hashed container)
  CONST % x           ->  __sym_fmt__(CONST, x)                   (formatting a symbolic value)
  obj[key]  (load)    ->  __sym_getitem__(obj, key)               (symbolic key into a dict)

No control flow is changed; with concrete values every helper performs exactly the original
operation.  The hook is not installed when SYMRUN_PLAIN=1 (replays run on untouched code).
The list of rewritten sites is available in REWRITES for the evidence.
"""
import ast
import os
import sys
import importlib.abc
import importlib.machinery
import importlib.util
import builtins

METHODS = {"startswith", "endswith", "join", "find", "rfind", "split", "count", "index",
           "replace", "encode", "decode", "strip", "rstrip", "lstrip", "lower"}
REWRITES = []
PLAIN = os.environ.get("SYMRUN_PLAIN") == "1"


class _Rewriter(ast.NodeTransformer):
    def __init__(self, fname):
        self.fname = fname

    def _rec(self, node, what):
        REWRITES.append("%s:%d:%s" % (os.path.basename(self.fname), getattr(node, "lineno", 0), what))

    def visit_Call(self, node):
        self.generic_visit(node)
        f = node.func
        if isinstance(f, ast.Attribute) and f.attr in METHODS and not any(isinstance(a, ast.Starred) for a in node.args):
            self._rec(node, "." + f.attr)
            new = ast.Call(func=ast.Name(id="__sym_call__", ctx=ast.Load()),
                           args=[f.value, ast.Constant(value=f.attr)] + node.args,
                           keywords=node.keywords)
            return ast.copy_location(new, node)
        return node

    def visit_Compare(self, node):
        self.generic_visit(node)
        if len(node.ops) == 1 and isinstance(node.ops[0], (ast.In, ast.NotIn)):
            self._rec(node, "in")
            call = ast.Call(func=ast.Name(id="__sym_in__", ctx=ast.Load()),
                            args=[node.left, node.comparators[0]], keywords=[])
            if isinstance(node.ops[0], ast.NotIn):
                call = ast.Call(func=ast.Name(id="__sym_not__", ctx=ast.Load()), args=[call], keywords=[])
            return ast.copy_location(call, node)
        return node

    def visit_BinOp(self, node):
        self.generic_visit(node)
        if isinstance(node.op, ast.Mod) and isinstance(node.left, ast.Constant) and \
                isinstance(node.left.value, (str, bytes)):
            self._rec(node, "%")
            new = ast.Call(func=ast.Name(id="__sym_fmt__", ctx=ast.Load()),
                           args=[node.left, node.right], keywords=[])
            return ast.copy_location(new, node)
        return node

    def visit_Import(self, node):
        # `import struct` -> additionally bind the name to the facade (symrun/structmod.py), so that functions and precompiled Struct objects the
        # module binds at import time still understand symbolic operands; with concrete operands the facade is the real module
        out = [node]
        for al in node.names:
            if al.name == "struct":
                self._rec(node, "import struct")
                out.append(ast.copy_location(ast.Assign(targets=[ast.Name(id=al.asname or "struct", ctx=ast.Store())],
                                                        value=ast.Name(id="__sym_struct__", ctx=ast.Load())), node))
        return out if len(out) > 1 else node

    def visit_Subscript(self, node):
        self.generic_visit(node)
        if isinstance(node.ctx, ast.Load) and not isinstance(node.slice, ast.Slice):
            new = ast.Call(func=ast.Name(id="__sym_getitem__", ctx=ast.Load()),
                           args=[node.value, node.slice], keywords=[])
            return ast.copy_location(new, node)
        return node


def _helpers():
    from . import values as V
    from collections import deque

    def sym_call(recv, name, *args, **kw):
        if isinstance(recv, (bytes, bytearray)) and any(isinstance(a, V.SymBytes) for a in args):
            recv = V.SymBytes(list(recv))
        elif isinstance(recv, builtins.str) and any(isinstance(a, (V.SymStr,)) for a in args):
            recv = V.SymStr(list(recv))
        elif isinstance(recv, builtins.str) and name == "join" and args:
            parts = list(args[0])
            if any(isinstance(p, V.SymStr) for p in parts):
                return V.SymStr(list(recv)).join(parts)
            return recv.join(parts)
        elif isinstance(recv, (bytes, bytearray)) and name == "join" and args:
            parts = list(args[0])
            if any(isinstance(p, V.SymBytes) for p in parts):
                out = []
                for i, p in enumerate(parts):
                    if i:
                        out.extend(recv)
                    out.extend(V._belems(p))
                return V.SymBytes(out)
            return recv.join(parts)
        return getattr(recv, name)(*args, **kw)

    def sym_in(a, b):
        if isinstance(a, V.SymEnum) and (isinstance(b, (set, frozenset)) or type(b) is dict):
            # hash-based containers hash the member first: an unhashable candidate value raises TypeError in real Python
            return a.get() in b
        if V.is_symbolic(a):
            if isinstance(b, (set, frozenset, list, tuple, deque)) or type(b) is dict:
                if not b:
                    return False
                return V.sym_or(*[a == x for x in b])
            if isinstance(b, builtins.str) and isinstance(a, V.SymStr):
                return a in V.SymStr(list(b)) if False else V.SymStr(list(b)).find(a) >= 0
            if isinstance(b, (bytes, bytearray)) and isinstance(a, V.SymBytes):
                return V.SymBytes(list(b)).find(a) >= 0
        return a in b

    def sym_not(x):
        if isinstance(x, bool):
            return not x
        return V.sym_not(x)

    class _Stand:
        """stand-in for a symbolic leaf while formatting: every conversion works, so that exactly the errors Python raises
        for the *shape* of the argument (arity, tuple vs scalar) are preserved"""
        def __str__(self):
            return "<sym>"
        __repr__ = __str__

        def __int__(self):
            return 0
        __index__ = __int__

        def __float__(self):
            return 0.0

    def sym_fmt(fmt, arg):
        def has(x):
            if isinstance(x, tuple):
                return any(has(y) for y in x)
            return V.is_symbolic(x) or hasattr(x, "__sym_isinstance__")

        def stand(x):
            if isinstance(x, tuple):
                items = [stand(y) for y in x]
                return type(x)(*items) if hasattr(x, "_fields") else tuple(items)
            return _Stand() if (V.is_symbolic(x) or hasattr(x, "__sym_isinstance__")) else x
        if has(arg):
            if isinstance(fmt, builtins.str):
                return fmt % stand(arg)     # raises TypeError for a wrong number of arguments, exactly as with concrete values
            return b"<formatted symbolic value>"
        return fmt % arg

    def sym_getitem(obj, key):
        if isinstance(key, V.SymEnum) and type(obj) is dict:
            return obj[key.get()]
        if V.is_symbolic(key) and type(obj) is dict:
            for k in obj:
                if key == k:
                    return obj[k]
            raise KeyError(key)
        return obj[key]

    from . import structmod
    return dict(__sym_call__=sym_call, __sym_in__=sym_in, __sym_not__=sym_not,
                __sym_fmt__=sym_fmt, __sym_getitem__=sym_getitem, __sym_struct__=structmod)


class _Loader(importlib.abc.SourceLoader):
    def __init__(self, fullname, path):
        self.fullname = fullname
        self.path = path

    def get_filename(self, fullname):
        return self.path

    def get_data(self, path):
        with open(path, "rb") as f:
            return f.read()

    def source_to_code(self, data, path, *, _optimize=-1):
        tree = ast.parse(data, filename=path)
        tree = _Rewriter(path).visit(tree)
        ast.fix_missing_locations(tree)
        return compile(tree, path, "exec", dont_inherit=True, optimize=_optimize)

    def get_code(self, fullname):
        # never use cached bytecode of the untransformed source
        return self.source_to_code(self.get_data(self.path), self.path)

    def exec_module(self, module):
        module.__dict__.update(_helpers())
        super().exec_module(module)


class _Finder(importlib.abc.MetaPathFinder):
    def __init__(self, root):
        self.root = root

    def find_spec(self, fullname, path, target=None):
        if not (fullname == "wormhole" or fullname.startswith("wormhole.")):
            return None
        if fullname.startswith("wormhole.test") or fullname == "wormhole._version":
            return None
        rel = fullname.split(".")
        base = os.path.join(self.root, *rel)
        if os.path.isdir(base):
            fn = os.path.join(base, "__init__.py")
            if not os.path.exists(fn):
                return None
            return importlib.util.spec_from_file_location(fullname, fn, loader=_Loader(fullname, fn),
                                                          submodule_search_locations=[base])
        fn = base + ".py"
        if os.path.exists(fn):
            return importlib.util.spec_from_file_location(fullname, fn, loader=_Loader(fullname, fn))
        return None


_installed = False


def install(repo_src=None):
    """must be called before the first `import wormhole`"""
    global _installed
    if PLAIN or _installed:
        return
    repo_src = repo_src or os.path.join(os.environ.get("VERIF_REPO", "/repo"), "src")
    assert "wormhole" not in sys.modules, "install() after wormhole was imported"
    sys.meta_path.insert(0, _Finder(repo_src))
    _installed = True


class shadow:
    """context manager: temporarily set names in module namespaces"""

    def __init__(self, *triples):
        self.triples = triples
        self.saved = []

    def __enter__(self):
        for mod, name, val in self.triples:
            self.saved.append((mod, name, mod.__dict__.get(name, _MISSING)))
            setattr(mod, name, val)
        return self

    def __exit__(self, *a):
        for mod, name, old in reversed(self.saved):
            if old is _MISSING:
                try:
                    delattr(mod, name)
                except AttributeError:
                    pass
            else:
                setattr(mod, name, old)
        return False


_MISSING = object()
