"""SymRope: byte strings whose *length* is symbolic.

A rope is a list of segments.  A segment is either a run of individually modelled bytes
(`bytes` kind, concrete length, elements python ints or z3 Int terms) or a slice
`blob[lo:hi]` of an opaque blob with symbolic length (`blob` kind; lo/hi z3 Int terms).
Slicing forks only where the relation between an offset and a segment boundary is not
decided by the path condition.  Used for multi-packet Noise payloads and transit records
(boundaries 65519 / 65535 are interior points of the symbolic length range).
"""
import builtins
import z3
from . import core
from .values import SymInt, SymBytes, SymBool, zint, sym_and, _belems, Escape


def E():
    return core.eng()


class Blob:
    def __init__(self, name, length, meta=None):
        self.name = name
        self.length = zint(length)     # z3 Int term
        self.meta = meta

    def __repr__(self):
        return "<Blob %s>" % self.name


class Seg:
    __slots__ = ("kind", "ident", "lo", "hi")

    def __init__(self, kind, ident, lo, hi):
        self.kind, self.ident, self.lo, self.hi = kind, ident, lo, hi

    def length(self):
        if self.kind == "bytes":
            return z3.IntVal(self.hi - self.lo)
        return z3.simplify(self.hi - self.lo)


def _t(x):
    return zint(x)


class SymRope:
    def __init__(self, segs):
        self.segs = list(segs)

    # construction -------------------------------------------------------
    @staticmethod
    def of_blob(blob):
        return SymRope([Seg("blob", blob, z3.IntVal(0), blob.length)])

    @staticmethod
    def of_bytes(b):
        el = list(_belems(b))
        return SymRope([Seg("bytes", el, 0, len(el))]) if el else SymRope([])

    @staticmethod
    def lift(x):
        if isinstance(x, SymRope):
            return x
        if isinstance(x, (SymBytes, bytes, bytearray)):
            return SymRope.of_bytes(x)
        raise Escape("rope from %r" % (type(x),))

    def sym_len(self):
        t = z3.IntVal(0)
        for s in self.segs:
            t = t + s.length()
        t = z3.simplify(t)
        return t.as_long() if z3.is_int_value(t) else SymInt(t)

    def __len__(self):
        n = self.sym_len()
        if isinstance(n, builtins.int):
            return n
        raise Escape("len() of a rope with symbolic length (module needs the `len` shadow)")

    def __bool__(self):
        n = self.sym_len()
        return n > 0 if isinstance(n, builtins.int) else bool(n > 0)

    def __add__(self, o):
        if isinstance(o, (SymRope, SymBytes, bytes, bytearray)):
            return SymRope(self.segs + SymRope.lift(o).segs)
        return NotImplemented

    def __radd__(self, o):
        if isinstance(o, (SymBytes, bytes, bytearray)):
            return SymRope(SymRope.lift(o).segs + self.segs)
        return NotImplemented

    def __hash__(self):
        raise Escape("hash(SymRope)")

    # slicing ------------------------------------------------------------
    def __getitem__(self, k):
        if not isinstance(k, slice) or k.step not in (None, 1):
            raise Escape("rope indexing %r" % (k,))
        i = 0 if k.start is None else k.start
        j = k.stop
        if (isinstance(i, builtins.int) and i < 0) or (isinstance(j, builtins.int) and j < 0):
            raise Escape("negative rope slice bound")
        out = []
        pos = z3.IntVal(0)
        it = _t(i)
        jt = None if j is None else _t(j)
        for s in self.segs:
            L = s.length()
            start = pos
            end = z3.simplify(pos + L)
            pos = end
            if jt is not None and E().branch(jt <= start):
                break
            if E().branch(it >= end):
                continue
            a = z3.simplify(it - start) if E().branch(it > start) else z3.IntVal(0)
            if jt is None:
                b = L
            else:
                b = z3.simplify(jt - start) if E().branch(jt - start < L) else L
            if s.kind == "bytes":
                ai = E().concretize(a)
                bi = E().concretize(b)
                if bi > ai:
                    out.append(Seg("bytes", s.ident[s.lo + ai:s.lo + bi], 0, bi - ai))
            else:
                out.append(Seg("blob", s.ident, z3.simplify(s.lo + a), z3.simplify(s.lo + b)))
        r = SymRope(out).norm()
        if all(s.kind == "bytes" for s in r.segs):
            el = []
            for s in r.segs:
                el.extend(s.ident[s.lo:s.hi])
            return SymBytes(el)
        return r

    # normal form / equality -------------------------------------------------
    def norm(self):
        out = []
        for s in self.segs:
            if s.kind == "bytes":
                if s.hi - s.lo == 0:
                    continue
                if out and out[-1].kind == "bytes":
                    p = out.pop()
                    el = p.ident[p.lo:p.hi] + s.ident[s.lo:s.hi]
                    out.append(Seg("bytes", el, 0, len(el)))
                else:
                    out.append(Seg("bytes", s.ident[s.lo:s.hi], 0, s.hi - s.lo))
            else:
                if z3.is_true(z3.simplify(s.lo == s.hi)):
                    continue
                if out and out[-1].kind == "blob" and out[-1].ident is s.ident and \
                        z3.is_true(z3.simplify(out[-1].hi == s.lo)):
                    p = out.pop()
                    out.append(Seg("blob", s.ident, p.lo, s.hi))
                else:
                    out.append(s)
        return SymRope(out)

    def eq(self, other):
        """structural equality (bool | SymBool); blobs are opaque, so two ropes are equal iff their
        normal forms coincide segment by segment (sound for the checks: never claims equality wrongly;
        may report inequality for equal ropes with different shapes -> shows up as a non-replaying cex)"""
        a = self.norm().segs
        b = SymRope.lift(other).norm().segs
        # drop provably-empty blob segments under the current path condition
        def nonempty(segs):
            out = []
            for s in segs:
                if s.kind == "blob" and not E().feasible(s.lo < s.hi):
                    continue
                out.append(s)
            return SymRope(out).norm().segs
        a, b = nonempty(a), nonempty(b)
        if len(a) != len(b):
            return False
        cs = []
        for x, y in zip(a, b):
            if x.kind != y.kind:
                return False
            if x.kind == "bytes":
                r = SymBytes(x.ident[x.lo:x.hi]) == SymBytes(y.ident[y.lo:y.hi])
                if r is False:
                    return False
                if r is not True:
                    cs.append(r)
            else:
                if x.ident is not y.ident:
                    return False
                cs.append(SymBool(z3.And(x.lo == y.lo, x.hi == y.hi)))
        return sym_and(*cs) if cs else True

    def __eq__(self, o):
        if isinstance(o, (SymRope, SymBytes, bytes, bytearray)):
            return self.eq(o)
        return False

    def __ne__(self, o):
        r = self.__eq__(o)
        return (not r) if isinstance(r, bool) else SymBool(z3.Not(r.t))

    def is_exactly_blob(self):
        """(blob, SymBool/bool) when the rope may be exactly one whole blob"""
        segs = self.norm().segs
        segs = [s for s in segs if not (s.kind == "blob" and not E().feasible(s.lo < s.hi))]
        if len(segs) != 1 or segs[0].kind != "blob":
            return None, False
        s = segs[0]
        return s.ident, SymBool(z3.And(s.lo == 0, s.hi == s.ident.length))

    def __repr__(self):
        return "<SymRope %d segs>" % len(self.segs)

    def __format__(self, spec):
        return repr(self)

    def model(self, m):
        """concretise: blobs become deterministic filler bytes derived from their name"""
        out = b""
        for s in self.segs:
            if s.kind == "bytes":
                out += bytes(x if isinstance(x, builtins.int) else m.eval(x, model_completion=True).as_long()
                             for x in s.ident[s.lo:s.hi])
            else:
                lo = m.eval(s.lo, model_completion=True).as_long()
                hi = m.eval(s.hi, model_completion=True).as_long()
                out += blob_bytes(s.ident.name, m.eval(s.ident.length, model_completion=True).as_long())[lo:hi]
        return out


def blob_bytes(name, n):
    import hashlib
    seed = hashlib.sha256(name.encode()).digest()
    reps = n // len(seed) + 1
    return (seed * reps)[:n]


def fresh_blob(name, lo, hi):
    e = E()
    v = z3.Int(e.fresh_name(name + "_len"))
    e.solver.add(v >= lo, v < hi)
    e.model = None
    return Blob(name, v)


def sym_len(x):
    if isinstance(x, SymRope):
        return x.sym_len()
    return builtins.len(x)


# a rope counts as bytes for shadowed isinstance() checks
from . import values as _V  # noqa: E402
_V._TYPEMAP[builtins.bytes] = _V._TYPEMAP[builtins.bytes] + (SymRope,)
