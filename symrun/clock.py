"""Symbolic clock: an IReactorTime whose instants are z3 Real terms.  callLater deadlines are now+delay (delay may be
symbolic); the harness asks `next_timer()` for the earliest active call - ties and order are decided by forking on
comparisons under the path condition."""
import z3
from zope.interface import implementer
from twisted.internet.interfaces import IReactorTime
from . import core
from .values import SymReal, SymBool, zreal


class SymDelayedCall:
    def __init__(self, clock, when, f, a, kw):
        self.clock, self.when, self.f, self.a, self.kw = clock, when, f, a, kw
        self.cancelled = False
        self.called = False

    def cancel(self):
        assert not self.cancelled and not self.called, "cancel() of a dead timer"
        self.cancelled = True

    def active(self):
        return not (self.cancelled or self.called)

    def delay(self, secs):
        assert self.active(), "delay() of a dead timer"
        self.when = SymReal(z3.simplify(self.when.t + zreal(secs)))

    def reset(self, secs):
        assert self.active()
        self.when = SymReal(z3.simplify(self.clock.now.t + zreal(secs)))

    def getTime(self):
        return self.when


@implementer(IReactorTime)
class SymClock:
    def __init__(self):
        self.now = SymReal(z3.RealVal(0))
        self.calls = []

    def seconds(self):
        return self.now

    def callLater(self, delay, f, *a, **kw):
        dc = SymDelayedCall(self, SymReal(z3.simplify(self.now.t + zreal(delay))), f, a, kw)
        self.calls.append(dc)
        return dc

    def getDelayedCalls(self):
        return [c for c in self.calls if c.active()]

    def earliest(self, candidates):
        """index of a candidate with minimal time (forks on comparisons); candidates = list of SymReal"""
        best = 0
        for i in range(1, len(candidates)):
            if bool(candidates[i] < candidates[best]):
                best = i
        return best

    def advance_to(self, t):
        """move time forward to t (must not be in the past: assumed)"""
        core.eng().assume((t >= self.now).t)
        self.now = t

    def fire(self, dc):
        self.advance_to(dc.when)
        dc.called = True
        dc.f(*dc.a, **dc.kw)
