"""Proxy values for symrun.  None of them subclasses int/bytes/str: an un-shadowed
C consumer fails loudly (TypeError) instead of silently concretising; harnesses
convert such TypeErrors into Escape where they can arise.

Single theory by construction: every byte and every code point is a z3 *Int*
(0..255 / 0..0x10FFFF); integers are z3 Ints; big-endian encode/decode is linear
arithmetic.  No Int<->BitVec conversion is ever emitted.
"""
import builtins
import z3
from . import core
from .core import Escape, Inconclusive


def E():
    return core.eng()


# ---------------------------------------------------------------- booleans
class SymBool:
    __slots__ = ("t",)

    def __init__(self, t):
        self.t = t

    def __bool__(self):
        return E().branch(self.t)

    def __invert__(self):
        return SymBool(z3.Not(self.t))

    def __and__(self, o):
        return SymBool(z3.And(self.t, zbool(o)))

    __rand__ = __and__

    def __or__(self, o):
        return SymBool(z3.Or(self.t, zbool(o)))

    __ror__ = __or__

    def __eq__(self, o):
        if isinstance(o, (SymBool, bool)):
            return SymBool(self.t == zbool(o))
        return False

    def __hash__(self):
        raise Escape("hash(SymBool)")

    def __repr__(self):
        return "<SymBool>"


def zbool(x):
    if isinstance(x, SymBool):
        return x.t
    if isinstance(x, bool):
        return z3.BoolVal(x)
    if z3.is_expr(x):
        return x
    raise Escape("zbool(%r)" % (x,))


def sym_and(*xs):
    if all(isinstance(x, bool) for x in xs):
        return all(xs)
    return SymBool(z3.And([zbool(x) for x in xs]))


def sym_or(*xs):
    if all(isinstance(x, bool) for x in xs):
        return any(xs)
    return SymBool(z3.Or([zbool(x) for x in xs]))


def sym_not(x):
    if isinstance(x, bool):
        return not x
    return SymBool(z3.Not(zbool(x)))


def sym_implies(a, b):
    if isinstance(a, bool) and isinstance(b, bool):
        return (not a) or b
    return SymBool(z3.Implies(zbool(a), zbool(b)))


# ---------------------------------------------------------------- integers
def zint(x):
    if isinstance(x, SymInt):
        return x.t
    if isinstance(x, bool):
        return z3.IntVal(builtins.int(x))
    if isinstance(x, builtins.int):
        return z3.IntVal(x)
    if z3.is_expr(x):
        return x
    raise Escape("zint(%r)" % (x,))


def _isnum(o):
    return isinstance(o, (SymInt, builtins.int)) and not isinstance(o, SymBool)


class SymInt:
    __slots__ = ("t",)

    def __init__(self, t):
        self.t = t

    def __add__(self, o):
        if not _isnum(o):
            return NotImplemented
        return SymInt(self.t + zint(o))

    __radd__ = __add__

    def __sub__(self, o):
        if not _isnum(o):
            return NotImplemented
        return SymInt(self.t - zint(o))

    def __rsub__(self, o):
        if not _isnum(o):
            return NotImplemented
        return SymInt(zint(o) - self.t)

    def __mul__(self, o):
        if not _isnum(o):
            return NotImplemented
        return SymInt(self.t * zint(o))

    __rmul__ = __mul__

    def __neg__(self):
        return SymInt(-self.t)

    def __floordiv__(self, o):
        if isinstance(o, builtins.int) and o > 0:
            return SymInt(self.t / z3.IntVal(o))   # z3 Int division floors for positive divisors
        raise Escape("SymInt // %r" % (o,))

    def __mod__(self, o):
        if isinstance(o, builtins.int) and o > 0:
            return SymInt(self.t % z3.IntVal(o))
        raise Escape("SymInt %% %r" % (o,))

    def __le__(self, o):
        return SymBool(self.t <= zint(o))

    def __lt__(self, o):
        return SymBool(self.t < zint(o))

    def __ge__(self, o):
        return SymBool(self.t >= zint(o))

    def __gt__(self, o):
        return SymBool(self.t > zint(o))

    def __eq__(self, o):
        if _isnum(o):
            return SymBool(self.t == zint(o))
        return False

    def __ne__(self, o):
        if _isnum(o):
            return SymBool(self.t != zint(o))
        return True

    def __hash__(self):
        # hashing needs a concrete value: fork over the feasible ones (bounded)
        return hash(E().concretize(self.t))

    def __index__(self):
        return E().concretize(self.t)

    def __int__(self):
        return E().concretize(self.t)

    def __bool__(self):
        return E().branch(self.t != 0)

    def __repr__(self):
        return "<SymInt>"

    def __format__(self, spec):
        import re as _re
        m = _re.fullmatch(r"0(\d+)x", spec or "")
        if m:
            return HexFmt(self, builtins.int(m.group(1)))       # f"{n:08x}": paired view, see sym_unhexlify
        return "<SymInt>"


def fresh_int(name, lo=None, hi=None):
    """fresh Int with lo <= v < hi"""
    e = E()
    v = z3.Int(e.fresh_name(name))
    if lo is not None:
        e.solver.add(v >= lo)
    if hi is not None:
        e.solver.add(v < hi)
    if e.model is not None:
        ok = True
        mv = e.model.eval(v, model_completion=True).as_long()
        if (lo is not None and mv < lo) or (hi is not None and mv >= hi):
            e.model = None
    return SymInt(v)


def fresh_bool(name):
    return SymBool(z3.Bool(E().fresh_name(name)))


# ---------------------------------------------------------------- bytes
def zbyte(x):
    if isinstance(x, SymInt):
        return x.t
    if isinstance(x, builtins.int):
        return z3.IntVal(x)
    if z3.is_expr(x):
        return x
    raise Escape("zbyte(%r)" % (x,))


def _belems(o):
    if isinstance(o, SymBytes):
        return o.e
    if isinstance(o, (bytes, bytearray)):
        return list(o)
    raise Escape("bytes-like expected, got %r" % (type(o),))


def _slice(k, n):
    def c(v):
        if isinstance(v, SymInt):
            return E().concretize(v.t)
        return v
    return slice(c(k.start), c(k.stop), c(k.step))


class SymBytes:
    """bytes of concrete length; each element a python int or a z3 Int term in 0..255"""
    __slots__ = ("e",)

    def __init__(self, elems):
        self.e = list(elems)

    def __len__(self):
        return len(self.e)

    def __getitem__(self, k):
        if isinstance(k, slice):
            return SymBytes(self.e[_slice(k, len(self.e))])
        if isinstance(k, SymInt):
            k = E().concretize(k.t)
        x = self.e[k]
        return x if isinstance(x, builtins.int) else SymInt(x)

    def __iter__(self):
        for x in self.e:
            yield x if isinstance(x, builtins.int) else SymInt(x)

    def __add__(self, o):
        if isinstance(o, (SymBytes, bytes, bytearray)):
            return SymBytes(self.e + _belems(o))
        return NotImplemented

    def __radd__(self, o):
        if isinstance(o, (bytes, bytearray)):
            return SymBytes(list(o) + self.e)
        return NotImplemented

    def __mul__(self, n):
        return SymBytes(self.e * n)

    def _eq_term(self, oe):
        cs = []
        for a, b in zip(self.e, oe):
            if isinstance(a, builtins.int) and isinstance(b, builtins.int):
                if a != b:
                    return False
            else:
                cs.append(zbyte(a) == zbyte(b))
        if not cs:
            return True
        return SymBool(z3.And(cs))

    def __eq__(self, o):
        if not isinstance(o, (SymBytes, bytes, bytearray)):
            return False
        oe = _belems(o)
        if len(oe) != len(self.e):
            return False
        return self._eq_term(oe)

    def __ne__(self, o):
        return sym_not(self.__eq__(o))

    def __hash__(self):
        raise Escape("hash(SymBytes)")

    def __bool__(self):
        return len(self.e) > 0

    def startswith(self, p):
        pe = _belems(p)
        if len(pe) > len(self.e):
            return False
        return SymBytes(self.e[:len(pe)])._eq_term(pe)

    def endswith(self, p):
        pe = _belems(p)
        if len(pe) > len(self.e):
            return False
        return SymBytes(self.e[len(self.e) - len(pe):])._eq_term(pe)

    def find(self, sub, start=0):
        se = _belems(sub)
        for i in range(start, len(self.e) - len(se) + 1):
            if SymBytes(self.e[i:i + len(se)])._eq_term(se):
                return i
        return -1

    def __contains__(self, sub):
        if isinstance(sub, (builtins.int, SymInt)):
            return bool(sym_or(*[SymBool(zbyte(x) == zbyte(sub)) if not (isinstance(x, builtins.int) and isinstance(sub, builtins.int)) else x == sub for x in self.e])) if self.e else False
        return self.find(sub) >= 0

    def is_concrete(self):
        return all(isinstance(x, builtins.int) for x in self.e)

    def concrete(self):
        if not self.is_concrete():
            raise Escape("SymBytes not concrete")
        return bytes(self.e)

    def __repr__(self):
        return "<SymBytes len=%d>" % len(self.e)

    def __format__(self, spec):
        return repr(self)

    def model(self, m):
        return bytes(x if isinstance(x, builtins.int) else m.eval(x, model_completion=True).as_long() for x in self.e)


def sym_startswith(recv, arg):
    """recv.startswith(arg) where either may be symbolic (concrete receivers of
    symbolic arguments cannot dispatch to the proxy by themselves)"""
    if isinstance(recv, (bytes, bytearray)) and isinstance(arg, SymBytes):
        return SymBytes(list(recv)).startswith(arg)
    if isinstance(recv, builtins.str) and isinstance(arg, SymStr):
        return SymStr(list(recv)).startswith(arg)
    return recv.startswith(arg)


def fresh_bytes(name, n):
    e = E()
    out = []
    for i in range(n):
        v = z3.Int(e.fresh_name("%s_%d" % (name, i)))
        e.solver.add(v >= 0, v < 256)
        out.append(v)
    return SymBytes(out)


def _ids(el):
    return tuple(x if isinstance(x, builtins.int) else ("t", x.get_id()) for x in el)


def be_decode(b):
    """big-endian unsigned integer of a SymBytes/bytes (linear arithmetic).  Paired view: bytes that
    were produced by be_encode(v) decode to the very same term v (no arithmetic enters the solver)."""
    el = _belems(b)
    if all(isinstance(x, builtins.int) for x in el):
        return builtins.int.from_bytes(bytes(el), "big")
    pv = getattr(E(), "_be_pairs", None)
    if pv is not None:
        hit = pv.get(_ids(el))
        if hit is not None:
            return SymInt(hit)
    t = z3.IntVal(0)
    for x in el:
        t = t * 256 + zbyte(x)
    return SymInt(z3.simplify(t))


def be_encode(v, n):
    """n-byte big-endian encoding of a SymInt known to be in [0, 256^n): byte i is the term
    (v div 256^(n-1-i)) mod 256 -- exact, and it only reaches the solver if a byte is inspected"""
    if isinstance(v, builtins.int):
        return SymBytes(list(v.to_bytes(n, "big")))
    e = E()
    bs = []
    for i in range(n):
        sh = 256 ** (n - 1 - i)
        bs.append(z3.simplify((v.t / z3.IntVal(sh)) % 256) if sh > 1 else z3.simplify(v.t % 256))
    if not hasattr(e, "_be_pairs"):
        e._be_pairs = {}
    e._be_pairs[_ids(bs)] = v.t
    return SymBytes(bs)


# ---------------------------------------------------------------- strings
def zcp(x):
    if isinstance(x, builtins.str):
        return z3.IntVal(ord(x))
    if z3.is_expr(x):
        return x
    raise Escape("zcp(%r)" % (x,))


def _selems(o):
    if isinstance(o, SymStr):
        return o.c
    if isinstance(o, builtins.str):
        return list(o)
    raise Escape("str-like expected, got %r" % (type(o),))


class SymStr:
    """str of concrete length; each element a 1-char python str or a z3 Int code point"""
    __slots__ = ("c",)

    def __init__(self, cps):
        self.c = list(cps)

    def __len__(self):
        return len(self.c)

    def __iter__(self):
        return (SymStr([x]) if not isinstance(x, builtins.str) else x for x in self.c)

    def __getitem__(self, k):
        if isinstance(k, slice):
            return SymStr(self.c[_slice(k, len(self.c))])
        if isinstance(k, SymInt):
            k = E().concretize(k.t)
        x = self.c[k]
        return x if isinstance(x, builtins.str) else SymStr([x])

    def __add__(self, o):
        if isinstance(o, (SymStr, builtins.str)):
            return SymStr(self.c + _selems(o))
        return NotImplemented

    def __radd__(self, o):
        if isinstance(o, builtins.str):
            return SymStr(list(o) + self.c)
        return NotImplemented

    def _eq_term(self, oe):
        cs = []
        for a, b in zip(self.c, oe):
            if isinstance(a, builtins.str) and isinstance(b, builtins.str):
                if a != b:
                    return False
            else:
                cs.append(zcp(a) == zcp(b))
        if not cs:
            return True
        return SymBool(z3.And(cs))

    def __eq__(self, o):
        if not isinstance(o, (SymStr, builtins.str)):
            return False
        oe = _selems(o)
        if len(oe) != len(self.c):
            return False
        return self._eq_term(oe)

    def __ne__(self, o):
        return sym_not(self.__eq__(o))

    def __hash__(self):
        raise Escape("hash(SymStr)")

    def __bool__(self):
        return len(self.c) > 0

    def __contains__(self, sub):
        return self.find(sub) >= 0

    def _cmp_gt(self, o, strict=True):
        """lexicographic order on code points, as Python compares str"""
        if not isinstance(o, (SymStr, builtins.str)):
            raise TypeError("'>' not supported between str and %s" % type(o).__name__)
        a, b = self.c, _selems(o)
        alts = []
        eq_prefix = []
        for i in range(min(len(a), len(b))):
            alts.append(z3.And(eq_prefix + [zcp(a[i]) > zcp(b[i])]))
            eq_prefix = eq_prefix + [zcp(a[i]) == zcp(b[i])]
        if len(a) > len(b) or (len(a) == len(b) and not strict):
            alts.append(z3.And(eq_prefix) if eq_prefix else z3.BoolVal(True))
        return SymBool(z3.simplify(z3.Or(alts))) if alts else False

    def __gt__(self, o):
        return self._cmp_gt(o, True)

    def __ge__(self, o):
        return self._cmp_gt(o, False)

    def __lt__(self, o):
        return sym_not(self._cmp_gt(o, False))

    def __le__(self, o):
        return sym_not(self._cmp_gt(o, True))

    def startswith(self, p, start=0):
        if isinstance(p, tuple):
            return bool(sym_or(*[self.startswith(x, start) for x in p]))
        pe = _selems(p)
        c = self.c[start:] if start else self.c
        if len(pe) > len(c):
            return False
        return SymStr(c[:len(pe)])._eq_term(pe)

    def endswith(self, p):
        pe = _selems(p)
        if len(pe) > len(self.c):
            return False
        return SymStr(self.c[len(self.c) - len(pe):])._eq_term(pe)

    def find(self, sub, start=0):
        se = _selems(sub)
        for i in range(start, len(self.c) - len(se) + 1):
            if SymStr(self.c[i:i + len(se)])._eq_term(se):
                return i
        return -1

    def rfind(self, sub):
        se = _selems(sub)
        for i in range(len(self.c) - len(se), -1, -1):
            if SymStr(self.c[i:i + len(se)])._eq_term(se):
                return i
        return -1

    def index(self, sub):
        i = self.find(sub)
        if i < 0:
            raise ValueError("substring not found")
        return i

    def count(self, sub):
        se = _selems(sub)
        n = 0
        i = 0
        while i <= len(self.c) - len(se):
            if SymStr(self.c[i:i + len(se)])._eq_term(se):
                n += 1
                i += max(1, len(se))
            else:
                i += 1
        return n

    def split(self, sep=None, maxsplit=-1):
        if sep is None:
            raise Escape("SymStr.split() on whitespace")
        se = _selems(sep)
        out = []
        cur = []
        n = 0
        i = 0
        while i < len(self.c):
            if (maxsplit < 0 or n < maxsplit) and i + len(se) <= len(self.c) and \
                    SymStr(self.c[i:i + len(se)])._eq_term(se):
                out.append(SymStr(cur))
                cur = []
                n += 1
                i += len(se)
            else:
                cur.append(self.c[i])
                i += 1
        out.append(SymStr(cur))
        return out

    def rstrip(self, chars):
        c = list(self.c)
        while c and SymStr([c[-1]])._in_chars(chars):
            c.pop()
        return SymStr(c)

    def lstrip(self, chars):
        c = list(self.c)
        while c and SymStr([c[0]])._in_chars(chars):
            c.pop(0)
        return SymStr(c)

    def strip(self, chars):
        return self.lstrip(chars).rstrip(chars)

    def _in_chars(self, chars):
        return bool(sym_or(*[self._eq_term([ch]) for ch in _selems(chars)]))

    def join(self, parts):
        out = []
        first = True
        for p in parts:
            if not first:
                out.extend(self.c)
            out.extend(_selems(p))
            first = False
        return SymStr(out)

    def lower(self):
        out = []
        for x in self.c:
            if isinstance(x, builtins.str):
                out.append(x.lower())
            else:
                # ASCII-only lowering; callers restrict the alphabet when they use this
                out.append(z3.If(z3.And(x >= 65, x <= 90), x + 32, x))
        return SymStr(out)

    def is_concrete(self):
        return all(isinstance(x, builtins.str) for x in self.c)

    def concrete(self):
        if not self.is_concrete():
            raise Escape("SymStr not concrete")
        return "".join(self.c)

    def encode(self, encoding="utf-8", errors="strict"):
        """exact for ASCII code points; a feasible symbolic non-ASCII code point is an Escape"""
        out = []
        for x in self.c:
            if isinstance(x, builtins.str):
                out.extend(x.encode(encoding))
            else:
                if E().branch(x >= 128):
                    raise Escape("encode of symbolic non-ASCII code point")
                out.append(x)
        return SymBytes(out)

    def __repr__(self):
        return "<SymStr len=%d>" % len(self.c)

    def __str__(self):
        if self.is_concrete():
            return "".join(self.c)
        return repr(self)

    def __format__(self, spec):
        return str(self)

    def model(self, m):
        return "".join(x if isinstance(x, builtins.str) else chr(m.eval(x, model_completion=True).as_long()) for x in self.c)


def fresh_str(name, n, lo=0, hi=0x110000, exclude_surrogates=True):
    e = E()
    out = []
    for i in range(n):
        v = z3.Int(e.fresh_name("%s_%d" % (name, i)))
        e.solver.add(v >= lo, v < hi)
        if exclude_surrogates and hi > 0xD800:
            e.solver.add(z3.Or(v < 0xD800, v > 0xDFFF))
        out.append(v)
    if lo > 0:
        e.model = None
    return SymStr(out)


# ---------------------------------------------------------------- finite choice
class SymEnum:
    """one of a finite list of concrete python values, selected by a z3 Int.
    Equality with concrete values is symbolic; anything else concretises by forking."""
    __slots__ = ("sel", "vals")

    def __init__(self, sel, vals):
        self.sel = sel
        self.vals = list(vals)

    def get(self):
        i = E().concretize_in(self.sel, range(len(self.vals)))
        return self.vals[i]

    def __eq__(self, o):
        if isinstance(o, SymEnum):
            cs = []
            for i, a in enumerate(self.vals):
                for j, b in enumerate(o.vals):
                    if a == b:
                        cs.append(z3.And(self.sel == i, o.sel == j))
            return SymBool(z3.Or(cs)) if cs else False
        idx = [i for i, a in enumerate(self.vals) if type(a) is type(o) and a == o]
        if not idx:
            return False
        return SymBool(z3.Or([self.sel == i for i in idx]))

    def __ne__(self, o):
        return sym_not(self.__eq__(o))

    def __hash__(self):
        return hash(self.get())

    # ordering / formatting need the concrete value: fork over the feasible ones and let Python decide
    def __lt__(self, o):
        return self.get() < (o.get() if isinstance(o, SymEnum) else o)

    def __gt__(self, o):
        return self.get() > (o.get() if isinstance(o, SymEnum) else o)

    def __le__(self, o):
        return self.get() <= (o.get() if isinstance(o, SymEnum) else o)

    def __ge__(self, o):
        return self.get() >= (o.get() if isinstance(o, SymEnum) else o)

    def __format__(self, spec):
        return "<symbolic value>"

    def __float__(self):
        return float(self.get())        # (C functions such as math.isnan ask for the float value: fork over the alternatives)

    def __int__(self):
        return int(self.get())

    def __index__(self):
        return self.get().__index__()

    def __add__(self, o):
        # concatenation/addition needs the concrete values: fork over the feasible ones
        return self.get() + (o.get() if isinstance(o, SymEnum) else o)

    def __radd__(self, o):
        return (o.get() if isinstance(o, SymEnum) else o) + self.get()

    def __repr__(self):
        return "<SymEnum of %d>" % len(self.vals)

    def __getattr__(self, name):
        # any other operation needs the concrete value: fork over the feasible ones
        if name.startswith("__") or name in ("sel", "vals"):
            raise AttributeError(name)
        return getattr(self.get(), name)

    def __iter__(self):
        return iter(self.get())

    def __len__(self):
        return len(self.get())

    def __getitem__(self, k):
        return self.get()[k]

    def isinstance_of(self, classes):
        idx = [i for i, v in enumerate(self.vals) if builtins.isinstance(v, classes)]
        if not idx:
            return False
        if len(idx) == len(self.vals):
            return True
        return SymBool(z3.Or([self.sel == i for i in idx]))

    def model(self, m):
        return self.vals[m.eval(self.sel, model_completion=True).as_long()]


def fresh_enum(name, vals):
    e = E()
    v = z3.Int(e.fresh_name(name))
    e.solver.add(v >= 0, v < len(vals))
    return SymEnum(v, vals)


# ---------------------------------------------------------------- concretisation
def concretise(x, m):
    """evaluate a (nested) value containing proxies under model m"""
    if isinstance(x, SymBool):
        return z3.is_true(m.eval(x.t, model_completion=True))
    if isinstance(x, SymInt):
        return m.eval(x.t, model_completion=True).as_long()
    if isinstance(x, (SymBytes, SymStr, SymEnum, SymReal)):
        return x.model(m)
    if isinstance(x, builtins.list):
        return [concretise(y, m) for y in x]
    if isinstance(x, builtins.tuple):
        if hasattr(x, "_fields"):
            return type(x)(*[concretise(y, m) for y in x])
        return builtins.tuple(concretise(y, m) for y in x)
    if isinstance(x, builtins.dict):
        return {concretise(k, m): concretise(v, m) for k, v in x.items()}
    if hasattr(x, "concretise"):
        return x.concretise(m)
    if hasattr(x, "model") and callable(x.model):
        return x.model(m)
    return x


def is_symbolic(x):
    return isinstance(x, (SymBool, SymInt, SymBytes, SymStr, SymEnum, SymReal))


def _list_eq(a, b):
    return a == b


# shadows for module namespaces -------------------------------------------
_TYPEMAP = {builtins.int: (SymInt,), builtins.bytes: (SymBytes,), builtins.str: (SymStr,),
            builtins.bool: (SymBool,)}


_SHADOW_TYPES = {}   # shadow function -> builtin type it stands for


def sym_isinstance(obj, cls):
    classes = cls if builtins.isinstance(cls, builtins.tuple) else (cls,)
    classes = builtins.tuple(_SHADOW_TYPES.get(c, c) if not builtins.isinstance(c, type) else c for c in classes)
    if builtins.isinstance(obj, SymEnum):
        r = obj.isinstance_of(classes)
        return r if builtins.isinstance(r, builtins.bool) else builtins.bool(r)
    if builtins.isinstance(obj, classes):
        return True
    for c in classes:
        for p in _TYPEMAP.get(c, ()):
            if builtins.isinstance(obj, p):
                return True
    return False


def sym_len(x):
    return builtins.len(x)


def sym_range(*a):
    """range() whose bounds may be symbolic integers and whose step is concrete: a generator that decides `i < stop` at every iteration
    (a symbolic comparison the engine forks on), so a loop over a symbolic length unrolls exactly as far as some value of it allows"""
    if all(isinstance(x, builtins.int) for x in a):
        return builtins.range(*a)
    if builtins.len(a) == 1:
        start, stop, step = 0, a[0], 1
    elif builtins.len(a) == 2:
        start, stop, step = a[0], a[1], 1
    else:
        start, stop, step = a
    if not isinstance(step, builtins.int) or step == 0:
        raise Escape("sym_range: symbolic or zero step")

    def gen():
        i = start
        n = 0
        while (i < stop) if step > 0 else (i > stop):
            yield i
            i = i + step
            n += 1
            if n > 4096:
                raise Escape("sym_range: more than 4096 iterations")
    return gen()


def sym_str(*a, **kw):
    if a and isinstance(a[0], SymBytes):
        # str(b, "utf8"): total only on ASCII here; harnesses constrain/handle non-ASCII
        b = a[0]
        out = []
        for x in b.e:
            if isinstance(x, builtins.int):
                if x >= 128:
                    raise Escape("sym_str: non-ASCII concrete byte")
                out.append(chr(x))
            else:
                if E().branch(x >= 128):
                    raise UnicodeDecodeError("utf8", b"", 0, 1, "symbolic non-ASCII byte (modelled as undecodable)")
                out.append(x)
        return SymStr(out)
    return builtins.str(*a, **kw)


def sym_int(x=0, base=None):
    if isinstance(x, SymInt):
        return x
    if isinstance(x, SymEnum):
        x = x.get()
    if isinstance(x, HexView):
        if base != 16:
            raise Escape("int(hex view, base=%r)" % (base,))
        if len(x.b) == 0:
            raise ValueError("invalid literal for int() with base 16: b''")
        return be_decode(x.b)
    if base is None:
        return builtins.int(x)
    return builtins.int(x, base)


class HexFmt(builtins.str):
    """result of format(SymInt, "0Nx"): a str (f-strings insist on one) that remembers the integer it renders"""
    def __new__(cls, v, width):
        o = builtins.str.__new__(cls, "<symbolic-hex>")
        o.v, o.width = v, width
        return o


def sym_unhexlify(x):
    """binascii.unhexlify shadow: unhexlify(f"{n:0Wx}") is the W/2-byte big-endian encoding of n (n < 16**W)"""
    import binascii
    if isinstance(x, HexFmt):
        if x.width % 2:
            raise binascii.Error("Odd-length string")
        if not builtins.bool(x.v < 16 ** x.width):
            raise Escape("hex rendering wider than its field")
        return be_encode(x.v, x.width // 2)
    return binascii.unhexlify(x)


class HexView:
    """hexlify(SymBytes): remembers the bytes it came from (paired view)"""
    def __init__(self, b):
        self.b = b

    def __len__(self):
        return 2 * len(self.b)


_SHADOW_TYPES[sym_str] = builtins.str
_SHADOW_TYPES[sym_int] = builtins.int


# ---------------------------------------------------------------- reals (symbolic time)
def zreal(x):
    if isinstance(x, SymReal):
        return x.t
    if isinstance(x, (builtins.int, builtins.float)) and not isinstance(x, bool):
        return z3.RealVal(repr(x)) if isinstance(x, builtins.float) else z3.RealVal(x)
    if isinstance(x, SymInt):
        return z3.ToReal(x.t)
    if z3.is_expr(x):
        return x
    raise Escape("zreal(%r)" % (x,))


class SymReal:
    __slots__ = ("t",)

    def __init__(self, t):
        self.t = t

    def __add__(self, o):
        return SymReal(self.t + zreal(o))

    __radd__ = __add__

    def __sub__(self, o):
        return SymReal(self.t - zreal(o))

    def __rsub__(self, o):
        return SymReal(zreal(o) - self.t)

    def __mul__(self, o):
        if isinstance(o, (builtins.int, builtins.float)):
            return SymReal(self.t * zreal(o))
        raise Escape("SymReal * symbolic")

    __rmul__ = __mul__

    def __neg__(self):
        return SymReal(-self.t)

    def __le__(self, o):
        return SymBool(self.t <= zreal(o))

    def __lt__(self, o):
        return SymBool(self.t < zreal(o))

    def __ge__(self, o):
        return SymBool(self.t >= zreal(o))

    def __gt__(self, o):
        return SymBool(self.t > zreal(o))

    def __eq__(self, o):
        if isinstance(o, (SymReal, builtins.int, builtins.float)):
            return SymBool(self.t == zreal(o))
        return False

    def __ne__(self, o):
        return sym_not(self.__eq__(o))

    def __hash__(self):
        raise Escape("hash(SymReal)")

    def __float__(self):
        raise Escape("float(SymReal)")

    def __repr__(self):
        return "<SymReal>"

    def __format__(self, spec):
        return "<SymReal>"

    def model(self, m):
        v = m.eval(self.t, model_completion=True)
        try:
            return float(v.as_fraction())
        except Exception:
            return float(v.as_decimal(12).rstrip("?"))


def fresh_real(name, lo=None, lo_strict=False):
    e = E()
    v = z3.Real(e.fresh_name(name))
    if lo is not None:
        e.solver.add(v > lo if lo_strict else v >= lo)
        e.model = None
    return SymReal(v)
