"""symrun core: native symbolic execution of real Python code with z3.

The code under test is run natively with proxy values (symrun.values) whose
operators build z3 terms.  Every branch on a symbolic condition asks the solver
whether both outcomes are feasible under the current path condition; if so the
execution forks.  Forking is by deterministic re-execution with a decision
prefix, so the real code needs no tracing or rewriting.

Verdicts:
  * every feasible path explored and every `prove()` query unsat  -> holds within the bound
  * a `prove()` query sat                                        -> Counterexample (model)
  * unknown / timeout / escape of a proxy into C code            -> Inconclusive
"""
import os
import time
import z3


def _note_raised(exc):
    """Twisted's Deferred machinery (and any bare `except:`) turns even a BaseException raised inside a callback into a Failure, i.e. swallows
    it.  Every control exception of the engine therefore registers itself on the running engine when it is created; explore() re-raises the
    first one at the end of the path if it did not arrive by itself."""
    e = ENG
    if e is not None and getattr(e, "raised", None) is None:
        e.raised = exc


class Escape(BaseException):
    """A symbolic value reached code that cannot handle it (C function, hash, ...).
    BaseException so that `except Exception` in the code under test cannot swallow it."""
    def __init__(self, *a):
        BaseException.__init__(self, *a)
        _note_raised(self)


_PROXY_NAMES = ("SymEnum", "SymStr", "SymBytes", "SymInt", "SymBool", "SymRope", "SymReal", "HexView", "_Stand", "SymPath")


def check_leak(e):
    """call from every harness-level `except Exception` around code under test: an ordinary exception whose text names a proxy class means
    a symbolic value reached code that cannot handle it (typically a C function raising TypeError).  The code under test would then
    behave differently from a concrete run, so the path must not count as explored: turn it into a loud Escape (-> inconclusive)."""
    if ENG is None:
        return
    if isinstance(e, Exception):
        msg = str(e)
        for n in _PROXY_NAMES:
            if n in msg:
                raise Escape("proxy leaked into code that cannot handle it: %s: %s" % (type(e).__name__, msg[:200])) from e


class Inconclusive(BaseException):
    """solver said unknown / resource bound hit"""
    def __init__(self, *a):
        BaseException.__init__(self, *a)
        _note_raised(self)


class _Abort(BaseException):
    """path is infeasible (assume() failed)"""
    def __init__(self, *a):
        BaseException.__init__(self, *a)
        _note_raised(self)


class Counterexample(BaseException):
    def __init__(self, label, model, detail=None):
        BaseException.__init__(self, label)
        self.label = label
        self.model = model
        self.detail = detail
        self.cex = None  # filled by explore(): concretised inputs


QUERY_TIMEOUT_MS = int(os.environ.get("SYMRUN_QUERY_TIMEOUT_MS", "60000"))


class Stats:
    def __init__(self):
        self.paths = 0
        self.aborted = 0
        self.queries = 0
        self.solver_s = 0.0
        self.obligations = 0
        self.discharged = 0
        self.trivial = 0  # obligations that were concretely True (no solver needed)
        self.outcomes = {}
        self.max_decisions = 0
        self.samples = []
        self.violations = []   # (label, concretised inputs), recorded by harness.common.check
        self.cover = set()     # harness-defined coverage items (e.g. Automat (machine, state, input) rows exercised)

    def merge(self, o):
        self.paths += o.paths
        self.aborted += o.aborted
        self.queries += o.queries
        self.solver_s += o.solver_s
        self.obligations += o.obligations
        self.discharged += o.discharged
        self.trivial += o.trivial
        self.max_decisions = max(self.max_decisions, o.max_decisions)
        self.cover |= getattr(o, "cover", set())
        for k, v in o.outcomes.items():
            self.outcomes[k] = self.outcomes.get(k, 0) + v
        for s in o.samples:
            if len(self.samples) < 6:
                self.samples.append(s)

    def as_dict(self):
        return dict(paths=self.paths, aborted_paths=self.aborted, solver_queries=self.queries,
                    solver_s=round(self.solver_s, 3), obligations=self.obligations,
                    discharged=self.discharged, trivially_true=self.trivial,
                    outcomes=dict(sorted(self.outcomes.items())), max_decisions=self.max_decisions)


class Engine:
    def __init__(self, prefix, stats, seed=0):
        self.solver = z3.Solver()
        self.solver.set("timeout", QUERY_TIMEOUT_MS)
        if seed:
            self.solver.set("random_seed", seed & 0x7fffffff)
        self.prefix = prefix      # list of bool decisions to follow
        self.pos = 0
        self.trail = []           # (taken, other_feasible) for every decision on this path
        self.stats = stats
        self.model = None         # a model of the current path condition, when known
        self.nfresh = 0
        self.notes = []           # free-form per-path notes (outcome classes)
        self.inputs = {}          # name -> proxy, registered for concretisation
        self.violations = []      # (label, concretised inputs) recorded by harness.common.check

    # -- solver plumbing -------------------------------------------------
    def _check(self, *extra):
        t0 = time.time()
        self.stats.queries += 1
        if extra:
            self.solver.push()
            self.solver.add(*extra)
        r = self.solver.check()
        m = self.solver.model() if r == z3.sat else None
        if extra:
            self.solver.pop()
        self.stats.solver_s += time.time() - t0
        if r == z3.unknown:
            raise Inconclusive("solver unknown: %s" % self.solver.reason_unknown())
        return (r == z3.sat), m

    def _holds_in_model(self, cond):
        if self.model is None:
            return None
        v = self.model.eval(cond, model_completion=True)
        if z3.is_true(v):
            return True
        if z3.is_false(v):
            return False
        return None

    def fresh_name(self, base):
        self.nfresh += 1
        return "%s!%d" % (base, self.nfresh)

    # -- the three primitives -------------------------------------------
    def assume(self, cond):
        if isinstance(cond, bool):
            if not cond:
                raise _Abort()
            return
        cond = z3.simplify(cond)
        if z3.is_true(cond):
            return
        if z3.is_false(cond):
            raise _Abort()
        self.solver.add(cond)
        if self._holds_in_model(cond) is not True:
            self.model = None
            if self.pos >= len(self.prefix):
                ok, m = self._check()
                if not ok:
                    raise _Abort()
                self.model = m

    def branch(self, cond, payload=None):
        """cond: z3 BoolRef -> python bool, forking when both outcomes are feasible"""
        cond = z3.simplify(cond)
        if z3.is_true(cond):
            return True
        if z3.is_false(cond):
            return False
        if self.pos < len(self.prefix):
            d = self.prefix[self.pos][0]
            self.trail.append((d, False, payload))
            self.pos += 1
            self.solver.add(cond if d else z3.Not(cond))
            if self._holds_in_model(cond) is not d:
                self.model = None
            return d
        hint = self._holds_in_model(cond)
        if hint is None:
            ok, m = self._check(cond)
            if ok:
                hint, self.model = True, m
            else:
                # pc is satisfiable by construction, so the other side is feasible
                self.trail.append((False, False, payload))
                self.pos += 1
                self.solver.add(z3.Not(cond))
                return False
        other = z3.Not(cond) if hint else cond
        ok, _m = self._check(other)
        self.trail.append((hint, ok, payload))
        self.pos += 1
        self.solver.add(cond if hint else z3.Not(cond))
        self.stats.max_decisions = max(self.stats.max_decisions, self.pos)
        return hint

    def prove(self, cond, label):
        """obligation: cond must hold on every input reaching this point"""
        self.stats.obligations += 1
        if hasattr(cond, "t") and not isinstance(cond, bool):
            cond = cond.t   # SymBool
        if isinstance(cond, bool):
            if cond:
                self.stats.discharged += 1
                self.stats.trivial += 1
                return
            ok, m = self._check()
            raise Counterexample(label, m)
        t = z3.simplify(cond)
        if z3.is_true(t):
            self.stats.discharged += 1
            self.stats.trivial += 1
            return
        sat, m = self._check(z3.Not(t))
        if sat:
            raise Counterexample(label, m)
        self.stats.discharged += 1

    def feasible(self, cond):
        """non-forking query: can cond hold on this path?"""
        if isinstance(cond, bool):
            return cond
        sat, _ = self._check(cond)
        return sat

    # -- helpers built on them ---------------------------------------------
    def concretize(self, term, cap=400):
        """fork over all feasible values of an Int term; returns a python int"""
        if isinstance(term, int):
            return term
        term = z3.simplify(term)
        if z3.is_int_value(term):
            return term.as_long()
        for _ in range(cap):
            if self.pos < len(self.prefix):
                v = self.prefix[self.pos][1]   # same candidate as when first explored
                if v is None:
                    raise RuntimeError("replay desync in concretize")
            else:
                v = None
                if self.model is not None:
                    mv = self.model.eval(term, model_completion=True)
                    if z3.is_int_value(mv):
                        v = mv.as_long()
                if v is None:
                    ok, m = self._check()
                    self.model = m
                    v = m.eval(term, model_completion=True).as_long()
            if self.branch(term == v, payload=v):
                return v
        raise Inconclusive("concretize: more than %d values for %s" % (cap, term))

    def concretize_in(self, term, candidates):
        """fork over an explicit ordered candidate list (deterministic under replay)"""
        if isinstance(term, int):
            return term
        for v in candidates:
            if self.branch(term == v):
                return v
        raise _Abort()

    def choose(self, n, name="choice"):
        """a schedule/shape choice in range(n): a fresh bounded Int, case-split"""
        if n <= 0:
            raise _Abort()
        if n == 1:
            return 0
        v = z3.Int(self.fresh_name(name))
        self.solver.add(v >= 0, v < n)
        self.model = None if self.model is None else self.model
        r = self.concretize_in(v, range(n))
        return r

    def note(self, outcome):
        self.notes.append(outcome)


ENG = None


def eng():
    if ENG is None:
        raise RuntimeError("no symbolic engine active")
    return ENG


def active():
    return ENG is not None


PATH_TIMEOUT_S = float(os.environ.get("SYMRUN_PATH_TIMEOUT", "300"))
MAX_VIOLATING_PATHS = int(os.environ.get("SYMRUN_MAX_VIOLATING_PATHS", "150"))


def _arm_path_timer():
    """a single path that runs away (a loop the code under test never leaves on a symbolic value, a solver call that does not return) must not
    hang the whole check: SIGALRM turns it into an Inconclusive verdict"""
    try:
        import signal

        def onalarm(signum, frame):
            raise Inconclusive("one path ran for more than %.0f s (runaway loop on a symbolic value or a solver call that does not return)" % PATH_TIMEOUT_S)
        signal.signal(signal.SIGALRM, onalarm)
        signal.setitimer(signal.ITIMER_REAL, PATH_TIMEOUT_S, 1.0)     # repeating: an exception raised inside a __del__ is swallowed by the interpreter
        return True
    except (ValueError, AttributeError, ImportError):
        return False        # not in the main thread of this process


def _disarm_path_timer():
    try:
        import signal
        signal.setitimer(signal.ITIMER_REAL, 0)
    except (ValueError, AttributeError, ImportError):
        pass


def explore(fn, stats=None, seed=0, max_paths=None, on_path=None, deadline=None):
    """Run fn() over all feasible paths (DFS over decision prefixes).

    fn() uses eng().prove(...) for obligations.  Raises Counterexample /
    Inconclusive / Escape out of the exploration.  Returns Stats.
    on_path(engine, result) is called at the end of each completed path.
    """
    global ENG
    stats = stats or Stats()
    stack = [[]]
    while stack:
        prefix = stack.pop()
        e = Engine(prefix, stats, seed)
        ENG = e
        try:
            _arm_path_timer()
            try:
                res = fn()
                swallowed = getattr(e, "raised", None)
                if swallowed is not None:
                    raise swallowed         # a control exception was raised on this path but swallowed on its way out (see _note_raised)
            except _Abort:
                stats.aborted += 1
                res = _Abort
            finally:
                _disarm_path_timer()
                ENG = None
        except Counterexample as c:
            c.engine = e
            raise
        if res is not _Abort:
            stats.paths += 1
            for n in e.notes:
                stats.outcomes[n] = stats.outcomes.get(n, 0) + 1
            if on_path is not None:
                ENG = e
                _arm_path_timer()
                try:
                    on_path(e, res)
                finally:
                    _disarm_path_timer()
                    ENG = None
        tr = e.trail
        for i in range(len(prefix), len(tr)):
            if tr[i][1]:
                stack.append([(t[0], t[2]) for t in tr[:i]] + [(not tr[i][0], tr[i][2])])
        if len(stats.violations) >= MAX_VIOLATING_PATHS:
            # the property is already violated on this many paths of this job: the verdict cannot change, stop spending time on it
            stats.outcomes["stopped-early-after-%d-violating-paths" % MAX_VIOLATING_PATHS] = 1
            break
        if max_paths is not None and stats.paths + stats.aborted >= max_paths:
            if stack:
                raise Inconclusive("path budget %d exhausted" % max_paths)
        if deadline is not None and time.time() > deadline and stack:
            raise Inconclusive("time budget exhausted with %d prefixes pending" % len(stack))
    return stats
