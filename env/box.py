"""Ideal SecretBox (AEAD) for transit / mailbox encryption.

encrypt(pt, nonce) -> nonce || fresh bytes of len(pt)+16, registered in a World under (key, nonce, pt);
decrypt(ct)        -> pt iff ct equals a registered honest ciphertext made under the same key, else CryptoError.
Distinct honest ciphertexts of equal length are assumed distinct.  Under symrun the fresh bytes are
symbolic; run concretely they come from a script (the solver's model) or a hash of the entry name.
"""
import hashlib
import z3
from nacl.exceptions import CryptoError
from symrun import core
from symrun.values import SymBytes, fresh_bytes


class BoxWorld:
    def __init__(self, script=None, concrete=False):
        self.entries = []   # dict(ct=<full nonce||body>, key, nonce, pt)
        self.script = dict(script or {})
        self.n = 0
        self.concrete = concrete   # never make ciphertext bytes symbolic (schedule-only explorations)

    def fresh(self, n):
        name = "box%d" % self.n
        self.n += 1
        if core.active() and not self.concrete:
            b = fresh_bytes(name, n)
            core.eng().inputs[name] = b
            return b
        if name in self.script and len(self.script[name]) == n:
            return self.script[name]
        out = b""
        i = 0
        while len(out) < n:
            out += hashlib.sha256(("%s/%d" % (name, i)).encode()).digest()
            i += 1
        return out[:n]

    def distinct(self, ct):
        if not core.active() or self.concrete:
            return
        e = core.eng()
        el = ct.e if isinstance(ct, SymBytes) else list(ct)
        for ent in self.entries:
            o = ent["ct"]
            oe = o.e if isinstance(o, SymBytes) else list(o)
            if len(oe) == len(el) and el:
                diffs = []
                trivially = False
                for x, y in zip(el, oe):
                    if isinstance(x, int) and isinstance(y, int):
                        if x != y:
                            trivially = True
                            break
                    else:
                        diffs.append((x if z3.is_expr(x) else z3.IntVal(x)) != (y if z3.is_expr(y) else z3.IntVal(y)))
                if not trivially and diffs:
                    e.solver.add(z3.Or(diffs))


def make_box_class(world):
    class IdealBox:
        KEY_SIZE = 32
        NONCE_SIZE = 24
        MACBYTES = 16

        def __init__(self, key):
            self.key = key

        def encrypt(self, pt, nonce=None):
            if nonce is None:
                nonce = world.fresh(24)
            body = world.fresh(len(pt) + 16)
            ct = (SymBytes(list(nonce)) if not isinstance(nonce, SymBytes) else nonce) + body \
                if isinstance(body, SymBytes) else bytes(nonce) + body
            world.distinct(ct)
            world.entries.append(dict(ct=ct, key=self.key, nonce=nonce, pt=pt))
            return ct

        def decrypt(self, c, nonce=None):
            if nonce is not None:
                c = nonce + c
            for ent in world.entries:
                if len(ent["ct"]) != len(c):
                    continue
                eq = (c == ent["ct"]) if isinstance(c, SymBytes) else (ent["ct"] == c)
                if eq:
                    if ent["key"] == self.key:
                        return ent["pt"]
                    break
            raise CryptoError("Decryption failed. Ciphertext failed verification")
    return IdealBox


def make_rope_box_class(world):
    """ideal AEAD over ropes (plaintexts of symbolic length): ciphertext = nonce || opaque blob of len(pt)+16; decrypt succeeds iff given exactly
    nonce || the whole blob of a registered entry made under the same key.  Opaque blobs never equal anything else (unforgeability)."""
    from symrun.rope import SymRope, Blob, sym_len

    class RopeBox:
        KEY_SIZE = 32
        NONCE_SIZE = 24
        MACBYTES = 16

        def __init__(self, key):
            self.key = key

        def encrypt(self, pt, nonce=None):
            assert nonce is not None and len(nonce) == 24
            n = sym_len(pt)
            blob = Blob("ct%d" % len(world.entries), (n.t if hasattr(n, "t") else n) + 16)
            world.entries.append(dict(blob=blob, key=self.key, nonce=bytes(nonce), pt=pt, ct=b""))
            return SymRope.of_bytes(bytes(nonce)) + SymRope.of_blob(blob)

        def decrypt(self, c, nonce=None):
            if nonce is not None:
                c = nonce + c
            r = SymRope.lift(c)
            head, body = r[:24], r[24:]
            if isinstance(body, SymRope):
                blob, cond = body.is_exactly_blob()
                if blob is not None:
                    for ent in world.entries:
                        if ent.get("blob") is blob:
                            same = (head == ent["nonce"])
                            if (same if isinstance(same, bool) else bool(same)) and (cond if isinstance(cond, bool) else bool(cond)):
                                if ent["key"] == self.key:
                                    return ent["pt"]
                            break
            raise CryptoError("Decryption failed. Ciphertext failed verification")
    return RopeBox
