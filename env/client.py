"""Environment for running the real composed wormhole client (wormhole.create -> Boss and all its machines)
without a network: fake ClientService/WebSocket, a mailbox-server model written from docs/server-protocol.rst,
ideal PAKE + ideal AEAD (env/box.py), deterministic randomness.  Everything here is *environment*; the code
under test is imported from /repo/src unchanged.
"""
import hashlib
import json
from collections import deque

from twisted.internet import defer
from twisted.internet.task import Clock
from twisted.python import log as tlog

from symrun import loader, core
from env.box import BoxWorld, make_box_class

import wormhole  # noqa: F401
from wormhole import wormhole as WMOD, _rendezvous as RV, _key as KEY, _boss as BOSS, errors
from wormhole.util import dict_to_bytes, bytes_to_dict, bytes_to_hexstr, hexstr_to_bytes
from automat import NoTransition

try:
    tlog.startLoggingWithObserver(lambda ev: None, setStdout=False)   # keep twisted from dumping logged failures to stderr
except Exception:
    pass


def describe_exc(e):
    """stable, address-free description: for Automat's NoTransition the (class.state, class.input) pair"""
    import re
    s = str(e)
    m = re.search(r"MethodicalInput\(method=<function (\S+) at .*MethodicalState\(method=<function (\S+) at", s, re.S)
    if m:
        return "no transition for input %s in state %s" % (m.group(1), m.group(2))
    if isinstance(e, AssertionError):
        import traceback
        tb = traceback.extract_tb(e.__traceback__)
        if tb:
            fr = tb[-1]
            return "assert failed in %s (%s)" % (fr.name, (fr.line or "").strip()[:80])
    return re.sub(r"0x[0-9a-f]+", "0x..", s)[:200]


# ------------------------------------------------------------------ ideal PAKE
class PakeError(Exception):
    pass


class IdealPAKE:
    world = None

    def __init__(self, pw, idSymmetric=b""):
        self.pw, self.id = pw, idSymmetric
        self.w = IdealPAKE.world
        self.n = None
        self.out = None
        self.w.pake_inputs.append((pw, idSymmetric))

    def start(self):
        self.n = self.w.next_pake()
        self.w.pake_table[self.n] = (self.pw, self.id)
        self.out = b"PAKE|%d" % self.n
        return self.out

    def finish(self, msg):
        if not isinstance(msg, bytes):
            raise core.Escape("symbolic PAKE message")
        if msg == self.out:
            raise PakeError("reflection thwarted")
        parts = msg.split(b"|")
        if len(parts) != 2 or parts[0] != b"PAKE" or not parts[1].isdigit() or int(parts[1]) not in self.w.pake_table:
            raise PakeError("not a group element")
        pw2, id2 = self.w.pake_table[int(parts[1])]
        transcript = b"/".join(sorted([self.out, msg]))
        # passwords/ids may be symbolic (SymBytes): the comparison then forks under the solver
        same = bool(self.pw == pw2) and bool(self.id == id2)
        if same:
            return hashlib.sha256(b"K/" + transcript).digest()
        # different password/id: each side derives an unrelated key
        return hashlib.sha256(b"X/" + self.out + b"/" + transcript).digest()


class FakeUtils:
    def __init__(self, world):
        self.w = world

    def random(self, n):
        self.w.nonce += 1
        return self.w.nonce.to_bytes(n, "big")


class FakeOS:
    """os.urandom for side ids / message ids (deterministic)"""
    def __init__(self, world):
        self.w = world
        import os
        self._os = os

    def __getattr__(self, k):
        return getattr(self._os, k)

    def urandom(self, n):
        self.w.rnd += 1
        return hashlib.sha256(b"rnd%d" % self.w.rnd).digest()[:n]


# ------------------------------------------------------------------ fake connectivity
class FakeService:
    def __init__(self, ep, f, **kw):
        self.started = False
        self.stop_d = None
        self.when_d = []

    def whenConnected(self, failAfterFailures=None):
        d = defer.Deferred()
        self.when_d.append(d)
        return d

    def startService(self):
        self.started = True

    def stopService(self):
        self.stop_d = defer.Deferred()
        return self.stop_d


class FakeWS:
    def __init__(self, client):
        self.client = client
        self.open = True

    def sendMessage(self, payload, isBinary):
        if getattr(self, "closing", False):
            # autobahn: WebSocketProtocol.sendMessage() in state CLOSING/CLOSED (closing handshake begun or transport going down, onClose not yet
            # delivered) raises Disconnected("Attempt to send on a closed protocol")
            from autobahn.exception import Disconnected
            raise Disconnected("Attempt to send on a closed protocol")
        d = bytes_to_dict(payload)
        self.client.sent.append(d)
        self.client.world.server.uplink(self.client, d)


# ------------------------------------------------------------------ mailbox server model
class Conn:
    def __init__(self, client, n):
        self.client = client
        self.n = n
        self.side = None
        self.appid = None
        self.up = deque()       # commands sent by the client, not yet processed by the server
        self.down = deque()     # responses not yet delivered to the client
        self.sub = None         # mailbox id subscribed on this connection
        self.log = []           # commands processed on this connection (types)


class Server:
    """conformant mailbox server: replies in request order per connection, `message` broadcast to every
    subscribed connection (incl. the sender), full replay of the mailbox on `open`"""

    def __init__(self, world):
        self.w = world
        self.nameplates = {}    # id -> dict(sides=set(), mailbox=id)
        self.mailboxes = {}     # id -> dict(msgs=[(side, phase, body)], opened=set(), moods={})
        self.conns = []
        self.next_np = 1
        self.next_mb = 1
        self.eager = True       # process commands as soon as they are sent
        self.welcome = {}
        self.released = []      # (side, nameplate)
        self.closed = []        # (side, mailbox, mood)
        self.errors_sent = []

    def connect(self, client):
        c = Conn(client, len(self.conns))
        self.conns.append(c)
        w = dict(self.welcome)
        if getattr(self, "welcome_next", None) is not None:
            w, self.welcome_next = dict(self.welcome_next), None     # (an operator restarted the server with an error/MOTD for new connections)
        c.down.append({"type": "welcome", "welcome": w})
        return c

    def disconnect(self, conn):
        conn.up.clear()
        conn.down.clear()
        conn.sub = None
        conn.dead = True

    def uplink(self, client, msg):
        conn = client.conn
        if conn is None:
            return
        conn.up.append(msg)
        if self.eager:
            self.process_all(conn)

    def process_all(self, conn):
        while conn.up:
            self.process(conn, conn.up.popleft())

    def mailbox(self, mid):
        return self.mailboxes.setdefault(mid, dict(msgs=[], opened=set(), moods={}, everopened=set()))

    def process(self, conn, m):
        t = m["type"]
        conn.log.append(t)
        if t == "bind":
            conn.side, conn.appid = m["side"], m["appid"]
        elif conn.side is None:
            self.error(conn, "must bind first", m)
        elif t == "list":
            conn.down.append({"type": "nameplates", "nameplates": [{"id": k} for k in sorted(self.nameplates)]})
        elif t == "allocate":
            while str(self.next_np) in self.nameplates:
                self.next_np += 1
            nid = str(self.next_np)
            self.claim(nid, conn.side)
            conn.down.append({"type": "allocated", "nameplate": nid})
        elif t == "claim":
            nid = m["nameplate"]
            np = self.claim(nid, conn.side)
            if np is None:
                self.error(conn, "crowded", m)
            else:
                conn.down.append({"type": "claimed", "mailbox": np["mailbox"]})
        elif t == "release":
            nid = m.get("nameplate")
            np = self.nameplates.get(nid)
            if np is not None:
                np["sides"].discard(conn.side)
                np["released"].add(conn.side)
                if not np["sides"]:
                    del self.nameplates[nid]
            self.released.append((conn.side, nid))
            conn.down.append({"type": "released"})
        elif t == "open":
            mb = self.mailbox(m["mailbox"])
            if len(mb["everopened"] | {conn.side}) > 2:
                self.error(conn, "crowded", m)
            else:
                mb["opened"].add(conn.side)
                mb["everopened"].add(conn.side)
                conn.sub = m["mailbox"]
                for (s, ph, body) in mb["msgs"]:
                    conn.down.append({"type": "message", "side": s, "phase": ph, "body": body})
        elif t == "add":
            if conn.sub is None:
                self.error(conn, "must open mailbox before adding", m)
            else:
                mb = self.mailbox(conn.sub)
                mb["msgs"].append((conn.side, m["phase"], m["body"]))
                for c in self.conns:
                    if c.sub == conn.sub and not getattr(c, "dead", False):
                        c.down.append({"type": "message", "side": conn.side, "phase": m["phase"], "body": m["body"]})
        elif t == "close":
            mid = m.get("mailbox") or conn.sub
            if mid is None:
                # (docs/server-protocol.rst: `.mailbox` is optional but must match a previous open on this connection; the real server answers
                #  "close without mailbox must follow open")
                self.error(conn, "close without mailbox must follow open", m)
                return
            if mid is not None:
                mb = self.mailbox(mid)
                mb["opened"].discard(conn.side)
                mb["moods"][conn.side] = m.get("mood")
            self.closed.append((conn.side, mid, m.get("mood")))
            conn.sub = None
            conn.down.append({"type": "closed"})
        elif t == "ping":
            conn.down.append({"type": "pong", "pong": m.get("ping")})
        else:
            self.error(conn, "unknown type", m)

    def claim(self, nid, side):
        np = self.nameplates.get(nid)
        if np is None:
            np = self.nameplates[nid] = dict(sides=set(), released=set(), mailbox="mb%d" % self.next_mb)
            self.next_mb += 1
        if side not in np["sides"] and len(np["sides"] | np["released"] | {side}) > 2:
            return None
        np["sides"].add(side)
        return np

    def error(self, conn, text, orig):
        self.errors_sent.append((conn.side, text, orig.get("type")))
        conn.down.append({"type": "error", "error": text, "orig": orig})

    def holds_claim(self, side):
        return any(side in np["sides"] for np in self.nameplates.values())

    def has_open(self, side):
        return any(side in mb["opened"] for mb in self.mailboxes.values())


# ------------------------------------------------------------------ the client wrapper
class Delegate:
    def __init__(self, ev):
        self.ev = ev

    def wormhole_got_welcome(self, w):
        self.ev.append(("welcome",))

    def wormhole_got_code(self, c):
        self.ev.append(("code", c))

    def wormhole_got_unverified_key(self, k):
        self.ev.append(("key", k))

    def wormhole_got_verifier(self, v):
        self.ev.append(("verifier", v))

    def wormhole_got_versions(self, v):
        self.ev.append(("versions", json.dumps(v, sort_keys=True)))

    def wormhole_got_message(self, m):
        self.ev.append(("message", m))

    def wormhole_closed(self, r):
        self.ev.append(("closed", r if isinstance(r, str) else type(r).__name__))


class Client:
    def __init__(self, world, name, delegated=True, appid="appid", versions=None, dilation=False, auto_get=True):
        self.world = world
        self.name = name
        self.clock = world.clock
        self.ev = []            # application-visible events in order
        self.errors = []        # exceptions that escaped an API call / ws_* entry point
        self.sent = []
        self.conn = None
        self.delegated = delegated
        kw = dict(delegate=Delegate(self.ev)) if delegated else {}
        self.w = WMOD.create(appid, "ws://relay.invalid:4000/v1", self.clock, versions=versions or {},
                             dilation=dilation, **kw)
        self.boss = self.w._boss
        self.closed_calls = 0
        _orig_closed = self.w.closed

        def _count_closed(result):
            self.closed_calls += 1
            return _orig_closed(result)
        self.w.closed = _count_closed     # observation only: Boss calls W.closed(result) once per closed notification
        self.rc = self.boss._RC
        self.side = self.boss._side
        self.svc = self.rc._connector
        self.deferred_results = {}
        self._trace_machines()
        self.rx_log = []        # server messages delivered to this client, in order
        self.closed_when = None
        world.clients.append(self)
        if not delegated and auto_get == "nested":
            self._auto_get_nested()
        elif not delegated and auto_get:
            self._auto_get()

    def _auto_get(self):
        """deferred API: ask for every event up front and record firing order in self.ev (like a delegate)"""
        names = [("get_welcome", "welcome"), ("get_code", "code"), ("get_unverified_key", "key"),
                 ("get_verifier", "verifier"), ("get_versions", "versions")]
        for meth, tag in names:
            d = getattr(self.w, meth)()
            d.addCallbacks(lambda r, tag=tag: self.ev.append((tag,) if tag == "welcome" else
                                                             ((tag, json.dumps(r, sort_keys=True)) if tag == "versions" else (tag, r))),
                           lambda f, tag=tag: self.ev.append(("failed:" + tag, f.type.__name__)))

        def next_msg():
            d = self.w.get_message()
            d.addCallbacks(lambda m: (self.ev.append(("message", m)), next_msg()),
                           lambda f: self.ev.append(("failed:message", f.type.__name__)))
        next_msg()

    def _auto_get_nested(self):
        """deferred API used the way applications written with callbacks use it: versions and messages are asked for from inside the key callback;
        firing order is recorded like a delegate's"""
        def rec(tag, r):
            self.ev.append((tag,) if tag == "welcome" else ((tag, json.dumps(r, sort_keys=True)) if tag == "versions" else (tag, r)))

        def fail(tag):
            return lambda f: self.ev.append(("failed:" + tag, f.type.__name__))

        def next_msg():
            d = self.w.get_message()
            d.addCallbacks(lambda m: (self.ev.append(("message", m)), next_msg()), fail("message"))

        def on_key(k):
            rec("key", k)
            self.w.get_versions().addCallbacks(lambda v: rec("versions", v), fail("versions"))
            next_msg()

        # (a result asked for late is handed over late - that is the application's doing; so code, key and verifier are asked for up front and only
        # what the statement orders AFTER them is asked for from inside a callback)
        self.w.get_welcome().addCallbacks(lambda r: rec("welcome", r), fail("welcome"))
        self.w.get_code().addCallbacks(lambda c: rec("code", c), fail("code"))
        self.w.get_unverified_key().addCallbacks(on_key, fail("key"))
        self.w.get_verifier().addCallbacks(lambda v: rec("verifier", v), fail("verifier"))

    def _trace_machines(self):
        """coverage: which (machine, state, input) rows of the Automat tables the runs exercise (Automat's own set_trace hook)"""
        b = self.boss
        ms = dict(Boss=b, Nameplate=b._N, Mailbox=b._M, Send=b._S, Order=b._O, Key=b._K, SortedKey=b._K._SK, Receive=b._R, Lister=b._L,
                  Allocator=b._A, Input=b._I, Code=b._C, Terminator=b._T)
        cov = self.world.transitions
        for name, o in ms.items():
            def tracer(old_state, input, new_state, name=name):
                cov.add((name, old_state, input))
                return None
            try:
                o.set_trace(tracer)
            except Exception:
                pass

    # -- guarded entry points -------------------------------------------------
    def _call(self, what, f, *a, **kw):
        try:
            return f(*a, **kw)
        except (core.Escape, core.Inconclusive, core._Abort, core.Counterexample):
            raise
        except Exception as e:
            core.check_leak(e)
            self.errors.append((what, type(e).__name__, describe_exc(e)))
            return None

    def api(self, name, *a, **kw):
        return self._call("api:" + name, getattr(self.w, name), *a, **kw)

    def connected(self):
        return self.conn is not None

    def can_connect(self):
        return self.conn is None and self.svc.stop_d is None and self.svc.started and not getattr(self.svc, "stopped", False)

    def open(self):
        self.conn = self.world.server.connect(self)
        self.ws = FakeWS(self)
        self._call("ws_open", self.rc.ws_open, self.ws)

    def drop(self):
        if self.conn is None:
            return
        self.world.server.disconnect(self.conn)
        self.conn = None
        self._call("ws_close", self.rc.ws_close, True, 1000, "dropped")

    def rx(self, msg):
        self.rx_log.append(msg)
        self._call("ws_message:" + msg.get("type", "?"), self.rc.ws_message, dict_to_bytes(msg))

    def rx_next(self):
        if self.conn is not None and self.conn.down:
            self.rx(self.conn.down.popleft())
            return True
        return False

    def fire_stopped(self):
        """the ClientService finished stopping: the transport is closed (ws_close) and stopService's Deferred fires"""
        d = self.svc.stop_d
        if d is None:
            return False
        self.svc.stop_d = None
        self.svc.stopped = True
        if self.conn is not None:
            self.world.server.disconnect(self.conn)
            self.conn = None
            self._call("ws_close", self.rc.ws_close, True, 1000, "stopped")
        self._call("stopService-callback", d.callback, None)
        return True

    def get(self, what):
        """deferred-mode accessor: registers a callback recording the outcome"""
        d = getattr(self.w, what)()
        slot = self.deferred_results.setdefault(what, [])
        entry = []
        slot.append(entry)
        d.addCallbacks(lambda r: entry.append(("ok", r)), lambda f: entry.append(("err", f.type.__name__)))
        return entry

    def state(self, machine):
        names = dict(B=self.boss, N=self.boss._N, M=self.boss._M, S=self.boss._S, O=self.boss._O, K=self.boss._K,
                     SK=self.boss._K._SK, R=self.boss._R, L=self.boss._L, A=self.boss._A, I=self.boss._I,
                     C=self.boss._C, T=self.boss._T)
        o = names[machine]
        tr = getattr(o, type(o).m._symbol, None)
        if tr is not None:
            return tr._state.method.__name__
        return type(o).m._automaton.initialState.method.__name__

    def closed_events(self):
        return [e for e in self.ev if e[0] == "closed"]


class World:
    def __init__(self):
        self.clock = Clock()
        self.box = BoxWorld(concrete=True)
        self.server = Server(self)
        self.clients = []
        self.pake_n = 0
        self.nonce = 0
        self.rnd = 0
        self.pake_inputs = []
        self.pake_table = {}
        self.logged = []        # twisted log.err / log.msg(isError) events during the run
        self.transitions = set()
        self.unhandled = []
        self._ctx = None

    def next_pake(self):
        self.pake_n += 1
        return self.pake_n

    def __enter__(self):
        IdealPAKE.world = self
        fos = FakeOS(self)
        self._ctx = loader.shadow(
            (RV.internet, "ClientService", FakeService),
            (KEY, "SPAKE2_Symmetric", IdealPAKE), (KEY, "SecretBox", make_box_class(self.box)),
            (KEY, "utils", FakeUtils(self)), (WMOD, "os", fos), (RV, "os", fos))
        self._ctx.__enter__()
        self._obs = lambda ev: self._observe(ev)
        tlog.addObserver(self._obs)
        # every NoTransition Automat constructs during the run is recorded where it is created: one raised inside a Deferred callback chain
        # (Terminator.stoppedRC under RendezvousConnector.stop()'s Deferred, ...) is otherwise only reported when the Deferred is garbage-collected
        self.no_transitions = []
        self._nt_init = NoTransition.__init__
        world = self

        def _recording_init(exc, state, symbol, _orig=self._nt_init):
            _orig(exc, state, symbol)
            world.no_transitions.append(describe_exc(exc))
        NoTransition.__init__ = _recording_init
        return self

    def __exit__(self, *a):
        NoTransition.__init__ = self._nt_init
        tlog.removeObserver(self._obs)
        self._ctx.__exit__(*a)
        return False

    def _observe(self, ev):
        if ev.get("isError"):
            f = ev.get("failure") or ev.get("log_failure")
            if "debugInfo" in ev or "Unhandled" in str(ev.get("log_format", "")) or "Unhandled" in str(ev.get("why", "")):
                # garbage-collection-time notice about an abandoned Deferred: timing is not attributable to a step
                self.unhandled.append(f.type.__name__ if f is not None else "?")
                return
            if f is not None:
                self.logged.append("%s: %s" % (f.type.__name__, describe_exc(f.value)))
            else:
                self.logged.append(str(ev.get("message"))[:80])

    def turn(self):
        """one eventual-queue turn / zero-delay timers"""
        self.clock.advance(0)

    def settle(self, rounds=50, deliver=True, stop=True):
        """fair completion: deliver everything owed, fire pending stops, drain eventual queue"""
        for _ in range(rounds):
            progress = False
            for c in self.clients:
                if c.conn is not None:
                    self.server.process_all(c.conn)
                if deliver:
                    while c.rx_next():
                        progress = True
                if stop and c.fire_stopped():
                    progress = True
            if self.clock.getDelayedCalls():
                self.clock.advance(0)
                progress = True
            if not progress:
                break
