"""Environment for running two real dilation Managers (with their real Connectors, DilatedConnectionProtocols,
_Framer/_Record, Inbound/Outbound, SubChannels and endpoints) against each other without a network:
an in-memory reactor (Clock + listenTCP/connectTCP recorded), byte pipes pumped by the schedule, the ideal Noise
stub (env/noise.py; `noiseprotocol` is not installed), fixed host addresses, and a mailbox stand-in that carries
the `dilate-N` control messages FIFO per sender.
"""
from collections import deque
from zope.interface import implementer, directlyProvides
from twisted.internet.task import Clock, Cooperator
from twisted.internet import defer, interfaces, address, protocol, error
from twisted.internet.interfaces import ITransport, IConsumer, IHalfCloseableProtocol
from twisted.python import failure, log as tlog

from symrun import loader, core
from env import noise as N
from wormhole.eventual import EventualQueue
from wormhole import _interfaces, ipaddrs
from wormhole._dilation import manager as M, connector as CN, connection as CX, subchannel as SC, inbound as INB, outbound as OUTB
from wormhole._dilation.roles import LEADER, FOLLOWER

try:
    tlog.startLoggingWithObserver(lambda ev: None, setStdout=False)
except Exception:
    pass


@implementer(ITransport, IConsumer, interfaces.IPushProducer)
class Pipe:
    def __init__(self, net, link, end):
        self.net, self.link, self.end = net, link, end
        self.peer = None
        self.proto = None
        self.buf = deque()          # bytes written by the peer, not yet delivered to our protocol
        self.closed = False         # loseConnection requested locally
        self.lost = False           # connectionLost delivered
        self.producer = None
        self.paused = False
        self.written = 0
        self.prod_paused = False    # we told the registered producer to pause (send buffer "full")
        self.t0 = self.now()        # when the link came up
        self.last_rx = None         # when bytes were last delivered to our protocol

    def now(self):
        clk = getattr(self.net, "clock", None)
        return clk.seconds() if clk is not None else 0.0

    def write(self, data):
        if not self.closed and not self.lost:
            self.peer.buf.append(data)
            self.written += len(data)
            if self.net.throttle and self.producer is not None and not self.prod_paused:
                # back-pressure: the send buffer is full after every write until the schedule drains it
                self.prod_paused = True
                self.producer.pauseProducing()

    def drain(self):
        if self.prod_paused and self.producer is not None and not self.lost:
            self.prod_paused = False
            self.producer.resumeProducing()
            return True
        return False

    def writeSequence(self, seq):
        for d in seq:
            self.write(d)

    def loseConnection(self):
        if not self.closed:
            self.closed = True
            self.net.closing.append(self)
            # observation for C16: a Manager hanging up on the connection it is using, and for how long that connection had been quiet by then
            p = getattr(self.proto, "_wrappedProtocol", self.proto)
            m = getattr(p, "_manager", None)
            if m is not None and getattr(m, "_connection", None) is p:
                self.net.inuse_drops.append(dict(link=self.link, manager=m, at=self.now(), quiet=self.now() - (self.last_rx if self.last_rx is not None else self.t0)))

    def abortConnection(self):
        self.loseConnection()

    def registerProducer(self, p, streaming):
        self.producer = p

    def unregisterProducer(self):
        self.producer = None
        self.prod_paused = False

    def pauseProducing(self):
        self.paused = True

    def resumeProducing(self):
        self.paused = False

    def stopProducing(self):
        pass

    def getPeer(self):
        return address.IPv4Address("TCP", "127.0.0.1", 1)

    def getHost(self):
        return address.IPv4Address("TCP", "127.0.0.1", 2)


class Port:
    def __init__(self, net, factory, port):
        self.net, self.factory, self.port = net, factory, port

    def getHost(self):
        return address.IPv4Address("TCP", "127.0.0.1", self.port)

    def stopListening(self):
        self.net.ports.pop(self.port, None)
        return defer.succeed(None)


class Net:
    def __init__(self):
        self.ports = {}
        self.next = 10000
        self.pending = []       # connect attempts not yet completed
        self.links = []         # (Pipe a, Pipe b)
        self.closing = []
        self.nlinks = 0
        self.throttle = False
        self.inuse_drops = []   # Managers that hung up on the connection they were using (see Pipe.loseConnection)
        self.clock = None


class Reactor(Clock):
    def __init__(self, net):
        Clock.__init__(self)
        self.net = net
        net.clock = self

    def listenTCP(self, port, factory, backlog=50, interface=""):
        p = self.net.next
        self.net.next += 1
        lp = Port(self.net, factory, p)
        self.net.ports[p] = lp
        factory.doStart()
        return lp

    def connectTCP(self, host, port, factory, timeout=30, bindAddress=None):
        c = {"host": host, "port": port, "factory": factory, "cancelled": False}
        self.net.pending.append(c)

        class Conn:
            def stopConnecting(s):
                c["cancelled"] = True

            def disconnect(s):
                c["cancelled"] = True

            def getDestination(s):
                return address.IPv4Address("TCP", host, port)
        factory.doStart()
        factory.startedConnecting(Conn())
        return Conn()

    def callWhenRunning(self, f, *a, **k):
        f(*a, **k)

    def addSystemEventTrigger(self, *a, **k):
        pass

    def removeSystemEventTrigger(self, *a):
        pass


class Sender:
    """stand-in for the wormhole Send machine: carries `dilate-N` messages to the peer FIFO"""
    def __init__(self):
        self.out = deque()
        self.log = []
        self.types = []

    def send(self, phase, plaintext):
        self.out.append((phase, plaintext))
        self.log.append(phase)
        try:
            import json
            self.types.append(json.loads(plaintext.decode("utf-8")).get("type"))
        except Exception:
            self.types.append(None)

    def got_verified_key(self, key):
        pass


class AppProtocol(protocol.Protocol):
    def __init__(self, log, tag):
        self.log, self.tag = log, tag

    def connectionMade(self):
        self.log.append((self.tag, "connectionMade"))

    def dataReceived(self, data):
        self.log.append((self.tag, "data", data))

    def connectionLost(self, reason=None):
        self.log.append((self.tag, "connectionLost"))


@implementer(IHalfCloseableProtocol)
class HalfAppProtocol(AppProtocol):
    def readConnectionLost(self):
        self.log.append((self.tag, "readConnectionLost"))

    def writeConnectionLost(self):
        self.log.append((self.tag, "writeConnectionLost"))


class AppFactory(protocol.Factory):
    def __init__(self, log, prefix, half=False):
        self.log, self.prefix, self.half, self.n = log, prefix, half, 0
        self.protos = []

    def buildProtocol(self, addr):
        tag = "%s#%d" % (self.prefix, self.n)
        self.n += 1
        self.log.append((tag, "buildProtocol", getattr(addr, "subprotocol", None)))
        p = (HalfAppProtocol if self.half else AppProtocol)(self.log, tag)
        self.protos.append(p)
        return p


class Side:
    def __init__(self, world, name, side_hex, expected=None, ping_interval=30.0, can_dilate=("ged",), no_listen=False):
        self.world, self.name = world, name
        self.eq = EventualQueue(world.reactor)
        self.coop = Cooperator(scheduler=self.eq.eventually)
        self.sender = Sender()
        directlyProvides(self.sender, _interfaces.ISend)
        self.status = []
        self.m = M.Manager(self.sender, side_hex, None, world.reactor, self.eq, self.coop, list(can_dilate), ping_interval,
                           expected, no_listen, None, None)
        self.m.got_dilation_key(b"DILATION-KEY")
        self.applog = []            # application-visible subchannel callbacks
        self.errors = []
        self.stopped = []
        self.m.when_stopped().addCallback(lambda _: self.stopped.append(True))
        self.connects = []          # results of endpoint.connect() Deferreds
        self.listens = []

    def state(self):
        return getattr(self.m, type(self.m).m._symbol)._state.method.__name__ if getattr(self.m, type(self.m).m._symbol, None) else "WAITING"

    def call(self, what, f, *a, **kw):
        try:
            return f(*a, **kw)
        except (core.Escape, core.Inconclusive, core._Abort, core.Counterexample):
            raise
        except Exception as e:
            core.check_leak(e)
            self.errors.append((what, type(e).__name__, str(e)[:160]))
            return None


class DWorld:
    """two sides (A leader-to-be or not, by side id), one in-memory network"""

    def __init__(self, sides=("aa" * 8, "bb" * 8), expected=(None, None), ping_interval=30.0, can_dilate=(("ged",), ("ged",)),
                 no_listen=(False, False)):
        self.net = Net()
        self.reactor = Reactor(self.net)
        self.noise = N.World(concrete=True)
        self.logged = []
        self._ctx = None
        self._args = (sides, expected, ping_interval, can_dilate, no_listen)
        self.sides = []

    def __enter__(self):
        N.IdealNoise.world = self.noise
        self._ctx = loader.shadow((CN, "NoiseConnection", N.IdealNoise), (CN, "build_noise", lambda: N.IdealNoise(self.noise)),
                                  (ipaddrs, "find_addresses", lambda: ["127.0.0.1"]))
        self._ctx.__enter__()
        self._obs = lambda ev: self._observe(ev)
        tlog.addObserver(self._obs)
        sides, expected, ping, cd, nl = self._args
        self.sides = [Side(self, "AB"[i], sides[i], expected[i], ping, cd[i], nl[i]) for i in range(2)]
        return self

    def __exit__(self, *a):
        tlog.removeObserver(self._obs)
        self._ctx.__exit__(*a)
        return False

    def _observe(self, ev):
        if ev.get("isError"):
            f = ev.get("failure") or ev.get("log_failure")
            if "debugInfo" in ev or "Unhandled" in str(ev.get("log_format", "")):
                return
            if f is not None and f.type is ValueError and str(f.value).startswith("invalid hostname"):
                # Twisted's HostnameEndpoint refusing a name it cannot IDNA-encode: a dialled attempt that failed, reported noisily by the
                # Connector (log.err) - an observation (DESIGN section 10), not "an error while handling hints"
                self.attempt_failures = getattr(self, "attempt_failures", []) + [str(f.value)]
                return
            self.logged.append(f.type.__name__ if f is not None else str(ev.get("message"))[:80])

    # ---- primitive environment steps ------------------------------------------------
    def start(self, i, versions=None):
        s = self.sides[i]
        peer_can = list(self._args[3][1 - i])
        s.call("got_wormhole_versions", s.m.got_wormhole_versions, versions if versions is not None else {"can-dilate": peer_can})

    def deliver_msg(self, i):
        """next mailbox-carried control message sent by side i reaches the peer"""
        s, p = self.sides[i], self.sides[1 - i]
        if not s.sender.out:
            return False
        phase, pt = s.sender.out.popleft()
        if getattr(p, "closing", False):
            return True     # Boss in S3_closing/S4_closed drops dilate-N messages before they reach the Dilator
        p.call("received_dilation_message", p.m.received_dilation_message, pt)
        return True

    def establish(self, k, refuse=False):
        c = self.net.pending.pop(k)
        if c["cancelled"]:
            return None
        lp = self.net.ports.get(c["port"])
        if lp is None or refuse:
            c["factory"].clientConnectionFailed(None, failure.Failure(error.ConnectionRefusedError()))
            return None
        n = self.net.nlinks
        self.net.nlinks += 1
        a, b = Pipe(self.net, n, "out"), Pipe(self.net, n, "in")
        a.peer, b.peer = b, a
        pa = c["factory"].buildProtocol(a.getPeer())
        pb = lp.factory.buildProtocol(b.getPeer())
        a.proto, b.proto = pa, pb
        self.net.links.append((a, b))
        pa.makeConnection(a)
        pb.makeConnection(b)
        return (a, b)

    def deliver_data(self, pipe, nbytes=None):
        """deliver the next written chunk (or its first nbytes) to pipe's protocol"""
        if not pipe.buf or pipe.lost:
            return False
        if pipe.closed:
            # TCP: loseConnection() stops reading; bytes still in flight to this end are discarded
            pipe.buf.clear()
            return False
        d = pipe.buf.popleft()
        pipe.last_rx = pipe.now()
        if nbytes is not None and nbytes < len(d):
            pipe.buf.appendleft(d[nbytes:])
            d = d[:nbytes]
        try:
            pipe.proto.dataReceived(d)
        except (core.Escape, core.Inconclusive, core._Abort, core.Counterexample):
            raise
        except Exception as e:
            core.check_leak(e)
            # Twisted logs an exception escaping dataReceived and drops the connection
            self.logged.append("dataReceived:" + type(e).__name__)
            pipe.loseConnection()
        return True

    def lose(self, link):
        for (a, b) in list(self.net.links):
            if a.link == link:
                for x in (a, b):
                    if not x.lost:
                        x.lost = True
                        x.closed = True
                        x.buf.clear()
                        x.proto.connectionLost(failure.Failure(error.ConnectionDone()))
                self.net.links.remove((a, b))
        self.net.closing = [t for t in self.net.closing if t.link != link]

    def lose_end(self, link, end):
        """the loss of a link is reported to ONE end only (each end's TCP stack notices on its own: the peer of a host that went silent keeps its
        socket until its own time-out); the other end's report follows later (`lose_end` again, or `lose`)"""
        for (a, b) in list(self.net.links):
            if a.link == link:
                for x in (a, b):
                    if x.end == end and not x.lost:
                        x.lost = True
                        x.closed = True
                        x.buf.clear()
                        x.peer.closed_by_peer = True
                        x.proto.connectionLost(failure.Failure(error.ConnectionDone()))
                if a.lost and b.lost:
                    self.net.links.remove((a, b))
        self.net.closing = [t for t in self.net.closing if not t.lost]

    def turn(self):
        self.reactor.advance(0)

    def fire_timer(self):
        dcs = self.reactor.getDelayedCalls()
        if not dcs:
            return False
        nxt = min(dc.getTime() for dc in dcs)
        self.reactor.advance(max(0, nxt - self.reactor.seconds()))
        return True

    def selected(self, i):
        """protocols of side i currently in state 'selected' and not lost"""
        out = []
        for (a, b) in self.net.links:
            for x in (a, b):
                p = getattr(x.proto, "_wrappedProtocol", x.proto)
                if isinstance(p, CX.DilatedConnectionProtocol) and p._connector._manager is self.sides[i].m and not x.lost:
                    st = getattr(p, type(p).m._symbol, None)
                    if st is not None and st._state.method.__name__ == "selected":
                        out.append((x, p))
        return out

    # ---- fair completion ------------------------------------------------------------
    def settle(self, rounds=400, timers=False):
        links0 = len(self.net.links)
        logged0 = len(self.logged)
        for _ in range(rounds):
            if "reconnect livelock" in self.logged:
                break
            if len(self.net.links) - links0 > 6 or len(self.logged) - logged0 > 12:
                # connections keep being established and dropped although the network delivers everything: the stacks do not converge
                if "reconnect livelock" not in self.logged:
                    self.logged.append("reconnect livelock")
                break
            prog = False
            for i in (0, 1):
                while not getattr(self, "inert", False) and self.deliver_msg(i):
                    prog = True
            while self.net.pending:
                self.establish(0)
                prog = True
            for (a, b) in list(self.net.links):
                for t in (a, b):
                    while t.buf and not t.lost:
                        self.deliver_data(t)
                        prog = True
            for t in list(self.net.closing):
                if t in self.net.closing:
                    self.lose(t.link)
                    prog = True
            for (a, b) in list(self.net.links):
                for t in (a, b):
                    if t.drain():
                        prog = True
            zero = [dc for dc in self.reactor.getDelayedCalls() if dc.getTime() <= self.reactor.seconds()]
            if zero:
                self.reactor.advance(0)
                prog = True
            if not prog:
                break
