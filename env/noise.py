"""Ideal Noise NNpsk0 stub (the `noiseprotocol` package is not installed in this sandbox).

Contract (DESIGN.md section 4): handshake messages and ciphertexts are *fresh* byte strings
(symbolic under symrun, scripted/derived when run concretely) registered in a World;
`read_message`/`decrypt` succeed iff the argument equals a registered honest string that was
produced with the same psk, by the opposite role, with the expected per-direction counter;
otherwise NoiseInvalidMessage.  Distinct honest strings of equal length are assumed distinct
(injectivity of an AEAD with unique nonces).  Ciphertext length = plaintext length + 16.
"""
import hashlib
from symrun import core
from symrun.values import SymBytes, fresh_bytes, sym_or, SymBool
from symrun.rope import SymRope, Blob, blob_bytes
import z3


# the repo's own exception classes (its fallback definitions when `noise` is not importable), so that the
# code under test catches exactly what the stub raises without any patching
from wormhole._dilation._noise import NoiseInvalidMessage, NoiseHandshakeError  # noqa: E402


class World:
    def __init__(self, script=None, concrete=False):
        self.concrete = concrete
        self.entries = []   # dict(ct, psk, init, ctr, pt, kind)
        self.script = dict(script or {})
        self.n = 0
        self.decrypt_log = []   # (entry or None) per decrypt call

    def fresh(self, n, kind):
        name = "ct%d" % self.n
        self.n += 1
        if core.active() and not self.concrete:
            b = fresh_bytes(name, n)
            core.eng().inputs[name] = b
            e = core.eng()
            for ent in self.entries:
                o = ent["ct"]
                if len(o) == n and n > 0:
                    oe = o.e if isinstance(o, SymBytes) else list(o)
                    e.solver.add(z3.Or([x != (y if z3.is_expr(y) else z3.IntVal(y)) for x, y in zip(b.e, oe)]))
            return b
        if name in self.script:
            v = self.script[name]
            assert len(v) == n, (name, len(v), n)
            return v
        out = b""
        i = 0
        while len(out) < n:
            out += hashlib.sha256(("%s/%d" % (name, i)).encode()).digest()
            i += 1
        return out[:n]


class IdealNoise:
    world = None   # set by the harness before protocols are built

    def __init__(self, world=None):
        self.w = world or IdealNoise.world
        self.psk = None
        self.init = None
        self.tx = 0
        self.rx = 0
        self.hs_written = 0
        self.hs_read = 0

    @classmethod
    def from_name(cls, name):
        return cls()

    def set_psks(self, psk):
        self.psk = psk

    def set_as_initiator(self):
        self.init = True

    def set_as_responder(self):
        self.init = False

    def start_handshake(self):
        pass

    def write_message(self, payload=b""):
        if self.hs_written >= 1:
            raise NoiseHandshakeError("handshake already written")
        self.hs_written += 1
        ct = self.w.fresh(48, "hs")
        self.w.entries.append(dict(ct=ct, psk=self.psk, init=self.init, ctr=0, pt=b"", kind="hs"))
        return ct

    def _match(self, c, kind):
        for ent in self.w.entries:
            if ent["kind"] != kind or len(ent["ct"]) != len(c):
                continue
            eq = (c == ent["ct"]) if isinstance(c, SymBytes) else (ent["ct"] == c)
            if eq:
                return ent
        return None

    def read_message(self, m):
        ent = self._match(m, "hs")
        if ent is None or ent["psk"] != self.psk or ent["init"] == self.init or self.hs_read >= 1:
            raise NoiseInvalidMessage()
        self.hs_read += 1
        return b""

    def encrypt(self, p):
        if isinstance(p, SymRope):
            name = "ct%d" % self.w.n
            self.w.n += 1
            n = p.sym_len()
            blob = Blob(name, (n if isinstance(n, int) else n.t) + 16)
            blob.meta = dict(ct=blob, psk=self.psk, init=self.init, ctr=self.tx, pt=p, kind="blob")
            self.w.entries.append(blob.meta)
            self.tx += 1
            return SymRope.of_blob(blob)
        ct = self.w.fresh(len(p) + 16, "msg")
        self.w.entries.append(dict(ct=ct, psk=self.psk, init=self.init, ctr=self.tx, pt=p, kind="msg"))
        self.tx += 1
        return ct

    def decrypt(self, c):
        if isinstance(c, SymRope):
            blob, whole = c.is_exactly_blob()
            ent = blob.meta if (blob is not None and blob.meta is not None and whole) else None
            self.w.decrypt_log.append(ent)
            if ent is None or ent["psk"] != self.psk or ent["init"] == self.init or ent["ctr"] != self.rx:
                raise NoiseInvalidMessage()
            self.rx += 1
            return ent["pt"]
        ent = self._match(c, "msg")
        self.w.decrypt_log.append(ent)
        if ent is None or ent["psk"] != self.psk or ent["init"] == self.init or ent["ctr"] != self.rx:
            raise NoiseInvalidMessage()
        self.rx += 1
        return ent["pt"]
