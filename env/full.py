"""Full-stack environment: two real wormholes created with wormhole.create(dilation=True) - Boss and every machine it wires,
RendezvousConnector, Dilator -> Manager -> Connector -> DilatedConnectionProtocol/_Record/_Framer, Inbound/Outbound, SubChannels -
run against BOTH environment models at once: the mailbox server model + fake WebSocket of env/client.py (which now carries the
real, encrypted `dilate-N` phases through the real Send/Mailbox/Order/Receive/Boss path) and the in-memory TCP network + ideal
Noise of env/dilation.py.  Nothing of the code under test is stubbed between `w.dilate()` / `w.close()` and the subchannel
callbacks; crypto, sockets, clock and OS randomness are the stubs listed in DESIGN section 4.
"""
from twisted.python import log as tlog

from symrun import loader, core
from env import noise as N
from env import client as CL
from env.dilation import DWorld, Net, Reactor
from wormhole import ipaddrs
from wormhole._dilation import manager as M, connector as CN

CODE = "4-purple-sausages"


class _Out:
    """DSim only asks whether control traffic of this side is pending"""
    def __init__(self, side):
        self.side = side

    @property
    def out(self):
        c = self.side.c
        return bool(c.conn is not None and (c.conn.down or c.conn.up))


class FSide:
    """what harness.dsim.DSim and the C10/C11/C13/C17 oracles read from a side, backed by a real wormhole"""

    def __init__(self, world, i, dilation=True):
        self.world, self.name, self.i = world, "AB"[i], i
        self.c = CL.Client(world.mw, self.name, delegated=False, versions={}, dilation=dilation, auto_get=True)
        self.can = dilation
        self.applog = []
        self.own_errors = []
        self.dw = None              # DilatedWormhole once dilate() was called
        self.close_result = []      # outcome of the close() Deferred
        self.sender = _Out(self)
        self.closing = False
        self.connects, self.listens = [], []

    @property
    def m(self):
        return self.c.boss._D._manager

    @property
    def errors(self):
        return self.own_errors + [(w, t, d) for (w, t, d) in self.c.errors]

    @property
    def stopped(self):
        """C17 reads this as 'shutdown completed': here it is the closed notification of the WORMHOLE (close()'s Deferred fired)"""
        return list(self.close_result)

    def state(self):
        m = self.m
        if m is None:
            return "WAITING"
        tr = getattr(m, type(m).m._symbol, None)
        return tr._state.method.__name__ if tr is not None else "WAITING"

    def call(self, what, f, *a, **kw):
        try:
            return f(*a, **kw)
        except (core.Escape, core.Inconclusive, core._Abort, core.Counterexample):
            raise
        except Exception as e:
            core.check_leak(e)
            self.own_errors.append((what, type(e).__name__, str(e)[:160]))
            return None


class FWorld(DWorld):
    def __init__(self, expected=(None, None), ping_interval=30.0, can_dilate=(True, True), no_listen=(False, False), dilate_first=True, disjoint=False):
        self.disjoint = disjoint        # side B offers (and accepts) only a dilation version side A does not know (a newer peer)
        self.net = Net()
        self.reactor = Reactor(self.net)
        self.noise = N.World(concrete=True)
        self.mw = CL.World()
        self.mw.clock = self.reactor
        self.logged = self.mw.logged
        self._ctx = None
        self._fargs = dict(expected=expected, ping=ping_interval, can=can_dilate, no_listen=no_listen)
        self._args = (None, expected, ping_interval, None, no_listen)
        self.sides = []

    # DSim sets .inert for its old-peer model; here the old peer is a real wormhole without dilation, whose mailbox traffic flows normally
    inert = property(lambda self: False, lambda self, v: None)

    def __enter__(self):
        self.mw.__enter__()
        N.IdealNoise.world = self.noise
        fos = CL.FakeOS(self.mw)
        self._ctx = loader.shadow((CN, "NoiseConnection", N.IdealNoise), (CN, "build_noise", lambda: N.IdealNoise(self.noise)),
                                  (ipaddrs, "find_addresses", lambda: ["127.0.0.1"]), (M, "os", fos))
        self._ctx.__enter__()
        self.sides = []
        for i in range(2):
            if self.disjoint and i == 1:
                with loader.shadow((CL.WMOD, "DILATION_VERSIONS", ["future-wizard"])):
                    self.sides.append(FSide(self, i, dilation=self._fargs["can"][i]))
            else:
                self.sides.append(FSide(self, i, dilation=self._fargs["can"][i]))
        for s in self.sides:
            s.c.api("set_code", CODE)
        return self

    def __exit__(self, *a):
        self._ctx.__exit__(*a)
        self.mw.__exit__(*a)
        return False

    # ---- primitive steps ------------------------------------------------------------
    def start(self, i, versions=None):
        """the application calls dilate()"""
        s = self.sides[i]
        if s.dw is not None or not s.can:
            return
        f = self._fargs
        s.dw = s.call("dilate", s.c.w.dilate, None, f["no_listen"][i], None, f["ping"], f["expected"][i])

    def deliver_msg(self, i):
        """fair completion of the mailbox side: one step for client i (reconnect, next owed server message, complete a stop)"""
        c = self.sides[i].c
        if c.conn is None and c.can_connect():
            c.open()
            return True
        if c.conn is not None and c.conn.up:
            self.mw.server.process_all(c.conn)
            return True
        if c.rx_next():
            return True
        if c.fire_stopped():
            return True
        return False

    def close_wormhole(self, i):
        s = self.sides[i]
        s.closing = True
        c = s.c
        c.closed_when = dict(boss=c.state("B"), step=0, nev=len(c.ev))
        d = c.api("close")
        if d is not None:
            entry = []
            c.deferred_results.setdefault("close", []).append(entry)
            d.addCallbacks(lambda r: (entry.append(("ok", r)), r)[1], lambda f: (entry.append(("err", f.type.__name__)), f)[1])
            d.addCallbacks(lambda r: s.close_result.append(("ok", r)), lambda f: s.close_result.append(("err", f.type.__name__)))
