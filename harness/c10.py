"""C10 - Dilation delivers every record exactly once, in order, across reconnects."""
import sys
from harness import common
from symrun import loader
loader.install()
from harness.dsim import DExplore, make_jobs, make_random_jobs as make_drandom_jobs, NAMES  # noqa: E402

CONFIGS = {
    "one-way": dict(app=True),
    "two-way": dict(app=True, both_write=True),
    "back-pressure": dict(app=True, throttle=True),
    # two subchannels opened and written to before the receiving application listens (OPEN/DATA held for a future listen)
    "listen-late": dict(app=True, listen_late=True),
    # a write whose encoded record falls between Noise's payload limit (65519) and its message limit (65535): it has to be split
    "one-way-big-write": dict(app=True, big_write=True),
}


def sub_log(log, tag):
    return [e for e in log if e[0] == tag]


def delivery_violations(sim, when):
    """shared by C10 and C13: per subchannel, the listener's callbacks vs. the opener's calls"""
    out = []
    w = sim.w
    A, B = w.sides
    for n in NAMES:
        ops = sim.ops[n]
        writes = [o[1] for o in ops if o[0] == "write"]
        blog = [e for e in B.applog if e[0].startswith("B-listen-%s#" % n)]
        builds = [e for e in blog if e[1] == "buildProtocol"]
        if len(builds) > 1:
            out.append(("subchannel surfaced more than once", "%s: %r" % (n, blog)))
            continue
        if builds and builds[0][2] != n:
            out.append(("subchannel surfaced under the wrong subprotocol", "%s as %r" % (n, builds[0][2])))
        if builds and not ops:
            out.append(("subchannel surfaced without an open", n))
        seq = [e[1:] for e in blog if e[0] == "B-listen-%s#0" % n and e[1] != "buildProtocol"]
        kinds = [x[0] for x in seq]
        if kinds.count("connectionMade") > 1 or kinds.count("connectionLost") > 1:
            out.append(("connectionMade/connectionLost delivered more than once", "%s: %r" % (n, kinds)))
        if kinds and kinds[0] != "connectionMade":
            out.append(("callback before connectionMade", "%s: %r" % (n, kinds)))
        if "connectionLost" in kinds and kinds.index("connectionLost") != len(kinds) - 1:
            out.append(("callback after connectionLost", "%s: %r" % (n, kinds)))
        got = [x[1] for x in seq if x[0] == "data"]
        if got != writes[:len(got)]:
            out.append(("data not delivered exactly once, in order, with boundaries kept", "%s: peer got %r, written %r" % (n, got, writes)))
        if "connectionLost" in kinds and n not in sim.closed and n not in sim.bclosed and not any(sim.stopped_req):
            out.append(("connectionLost without a close", n))
        if "connectionLost" in kinds and n in sim.closed and n not in sim.bclosed:
            # everything written before the local close is delivered before the peer sees connectionLost
            before = []
            for o in ops:
                if o[0] == "close":
                    break
                if o[0] == "write":
                    before.append(o[1])
            if got[:len(before)] != before:
                out.append(("peer saw connectionLost before the data written before close", "%s: got %r, written before close %r" % (n, got, before)))
        # the opener's own protocol
        alog = [e[1] for e in A.applog if e[0] == "A-conn-%s#0" % n and e[1] != "buildProtocol"]
        if alog.count("connectionMade") > 1 or alog.count("connectionLost") > 1:
            out.append(("opener's connectionMade/connectionLost delivered more than once", "%s: %r" % (n, alog)))
        backs = [e[2] for e in A.applog if e[0] == "A-conn-%s#0" % n and e[1] == "data"]
        bw = [b"%s-back%d" % (n.encode(), i) for i in range(sim.bwrites[n])]
        if backs != bw[:len(backs)]:
            out.append(("reverse-direction data not delivered exactly once in order", "%s: %r vs %r" % (n, backs, bw)))
        if when == "settled" and not any(sim.stopped_req) and w.sides[0].state() == "CONNECTED" and w.sides[1].state() == "CONNECTED":
            opened = bool(sim.connect_d.get(n)) and sim.connect_d[n][0][0] == "ok"
            if opened and n in sim.listening:
                if not builds:
                    out.append(("opened subchannel never surfaced at the listening peer", n))
                elif got != writes and not (sim.half is False and n in sim.bclosed):
                    out.append(("written data not delivered after the connection was re-established", "%s: got %r, written %r" % (n, got, writes)))
                if n in sim.closed and not sim.half and "connectionLost" not in kinds:
                    out.append(("close not delivered to the peer", "%s: %r" % (n, kinds)))
                if n in sim.closed and not sim.half and "connectionLost" not in alog:
                    out.append(("closing side never saw connectionLost", "%s: %r" % (n, alog)))
                if backs != bw and n not in sim.closed:
                    out.append(("reverse-direction data not delivered", "%s: %r vs %r" % (n, backs, bw)))
    return out


class Delivery(DExplore):
    configs = CONFIGS

    def violations(self, sim, when):
        out = []
        for s in sim.w.sides:
            for e in s.errors:
                out.append(("internal failure", "%s: %s %s: %s" % (s.name, e[0], e[1], e[2])))
        for l in sim.w.logged:
            out.append(("error logged", l))
        return out + delivery_violations(sim, when)


# ---- full stack: the same oracle with the real wormholes underneath (dilate-N control traffic through the real mailbox path, mailbox drops/reordering)
from harness import fullstack as FS  # noqa: E402

FS_CONFIGS = {
    "fs-one-way": dict(app=True, reorder=True, stoppable=False),
    "fs-two-way-dilate-late": dict(app=True, both_write=True, dilate_when="late", stoppable=False),
}


class FDelivery(FS.FExplore):
    configs = FS_CONFIGS

    def violations(self, sim, when):
        return FS.base_violations(sim) + delivery_violations(sim, when) + FS.app_message_violations(sim, when)


def jobs(tier):
    return make_jobs(Delivery, tier, 2, 3) + make_drandom_jobs(Delivery, tier) + FS.make_jobs(FDelivery, tier, 2, 3) + FS.make_random_jobs(FDelivery, tier, per_cfg=32)


ASSUMPTIONS = [
    "in-memory network env/dilation.py (reliable FIFO byte pipes, whole or half chunks delivered as scheduled, any link may be lost at any step), ideal Noise",
    "application: side A opens subchannels p0/p1 (2 writes each at most), side B listens (early or late) and may write/close back (two-way config); contents are fixed distinct strings",
    "bounded: every prefix of one canonical run (incl. one loss of the selected link and re-convergence) + k arbitrary steps + fair completion; at most 3 link losses",
]

if __name__ == "__main__":
    sys.exit(common.main("C10", "harness.c10", level="other", extra_assumptions=ASSUMPTIONS,
                         trusted_base=["env/dilation.py network model", "env/noise.py ideal Noise"],
                         explanation="bounded symbolic schedules over two real dilation stacks with link loss at record and mid-frame positions: per subchannel the peer's "
                                     "connectionMade/dataReceived*/connectionLost equal the opener's connect/write*/loseConnection exactly once, in order, boundaries kept, "
                                     "also for writes issued while disconnected"))


# ---------------------------------------------------------------------------------------------------
# inductive steps from a symbolic pre-state (any history, container sizes <= 3): the seqnum/ack arithmetic
from collections import deque  # noqa: E402
from harness.common import Job, check  # noqa: E402
from symrun import core  # noqa: E402
from symrun.core import eng  # noqa: E402
from symrun.values import SymInt, SymBool, fresh_int, sym_and, sym_or, sym_not  # noqa: E402
from wormhole._dilation import outbound as OUTB, inbound as INB, manager as MGR  # noqa: E402
from wormhole._dilation.connection import Data, Open, Close, Ack  # noqa: E402
import z3  # noqa: E402


class AckStep(Job):
    """Outbound.handle_ack from a symbolic queue: exactly the records with seqnum <= ack are retired"""
    name = "step_handle_ack"
    functions = ["_dilation.outbound.Outbound.handle_ack", "Outbound.build_record", "Outbound.queue_and_send_record", "Outbound.use_connection"]
    must_reach = ("nt:retired-some", "nt:retired-none")
    bounds = dict(queue_len="0..3 records with consecutive symbolic seqnums a..a+n-1 (a >= 0 arbitrary)", unsent="any suffix of the queue",
                  ack="arbitrary integer >= -1")

    def scenario(self):
        n = eng().choose(4, "queue_len")
        u = eng().choose(n + 1, "unsent_len")
        a = fresh_int("first_seqnum", 0)
        ack = fresh_int("ack", -1)
        eng().inputs.update(queue_len=n, unsent_len=u, first_seqnum=a, ack=ack)

        class Mgr:
            pass
        o = OUTB.Outbound.__new__(OUTB.Outbound)
        o._outbound_queue = deque(Data(a + i, 1, b"d%d" % i) for i in range(n))
        o._queued_unsent = deque(list(o._outbound_queue)[n - u:])
        before = list(o._outbound_queue)
        before_unsent = list(o._queued_unsent)
        o.handle_ack(ack)
        after = list(o._outbound_queue)
        after_unsent = list(o._queued_unsent)
        # reference: keep exactly those with seqnum > ack, order preserved
        check(after == before[len(before) - len(after):], "handle_ack did not remove a prefix of the queue")
        for r in before[:len(before) - len(after)]:
            check(r.seqnum <= ack, "handle_ack retired a record the peer has not acknowledged")
        for r in after:
            check(r.seqnum > ack, "handle_ack kept a record the peer has acknowledged")
        check(after_unsent == before_unsent[len(before_unsent) - len(after_unsent):], "handle_ack did not remove a prefix of the unsent queue")
        for r in before_unsent[:len(before_unsent) - len(after_unsent)]:
            check(r.seqnum <= ack, "handle_ack dropped an unsent record the peer has not acknowledged")
        for r in after_unsent:
            check(r.seqnum > ack, "handle_ack kept an acknowledged record in the unsent queue")
        eng().note("nt:retired-some" if len(after) < len(before) else "nt:retired-none")

    def replay(self, inp, label):
        n, u, a, ack = inp["queue_len"], inp["unsent_len"], inp["first_seqnum"], inp["ack"]
        o = OUTB.Outbound.__new__(OUTB.Outbound)
        o._outbound_queue = deque(Data(a + i, 1, b"d%d" % i) for i in range(n))
        o._queued_unsent = deque(list(o._outbound_queue)[n - u:])
        before = list(o._outbound_queue)
        bu = list(o._queued_unsent)
        o.handle_ack(ack)
        if list(o._outbound_queue) != [r for r in before if r.seqnum > ack] or list(o._queued_unsent) != [r for r in bu if r.seqnum > ack]:
            return "queue seqnums %r (unsent %r), ack %d -> %r / %r" % ([r.seqnum for r in before], [r.seqnum for r in bu], ack,
                                                                      [r.seqnum for r in o._outbound_queue], [r.seqnum for r in o._queued_unsent])
        return None


class InboundStep(Job):
    """Manager.got_record for Open/Data/Close with symbolic seqnum against a symbolic watermark: always acked, dispatched iff new,
    watermark = max"""
    name = "step_got_record"
    functions = ["_dilation.manager.Manager.got_record", "_dilation.inbound.Inbound.is_record_old", "Inbound.update_ack_watermark"]
    must_reach = ("nt:new", "nt:old")
    bounds = dict(watermark="arbitrary integer >= -1", seqnum="arbitrary integer >= 0", record="Open / Data / Close")

    def build(self, h, kind, s):
        sent, handled = [], []

        class FakeOutbound:
            def send_if_connected(self2, r):
                sent.append(r)
        m = MGR.Manager.__new__(MGR.Manager)
        inb = INB.Inbound.__new__(INB.Inbound)
        inb._highest_inbound_acked = h
        inb.handle_open = lambda scid, sub: handled.append(("open", scid))
        inb.handle_data = lambda scid, d: handled.append(("data", scid))
        inb.handle_close = lambda scid: handled.append(("close", scid))
        m._inbound = inb
        m._outbound = FakeOutbound()
        r = [Open(s, 3, "proto"), Data(s, 3, b"x"), Close(s, 3)][kind]
        return m, inb, r, sent, handled

    def scenario(self):
        h = fresh_int("watermark", -1)
        s = fresh_int("seqnum", 0)
        kind = eng().choose(3, "kind")
        eng().inputs.update(watermark=h, seqnum=s, kind=kind)
        m, inb, r, sent, handled = self.build(h, kind, s)
        from symrun import loader
        from symrun import values as V
        with loader.shadow((MGR, "isinstance", V.sym_isinstance)):
            m.got_record(r)
        check(len(sent) == 1 and isinstance(sent[0], Ack), "record not acknowledged exactly once")
        check(sent[0].resp_seqnum == s, "ack carries the wrong seqnum")
        if handled:
            check(s > h, "an old (already delivered) record was dispatched again")
            check(handled == [(["open", "data", "close"][kind], 3)], "record dispatched to the wrong handler")
            eng().note("nt:new")
        else:
            check(s <= h, "a new record was dropped as old")
            eng().note("nt:old")
        w = inb._highest_inbound_acked
        check(sym_and(w >= h, w >= s, sym_or(w == h, w == s)), "watermark is not max(old watermark, seqnum)")

    def replay(self, inp, label):
        m, inb, r, sent, handled = self.build(inp["watermark"], inp["kind"], inp["seqnum"])
        m.got_record(r)
        h, s = inp["watermark"], inp["seqnum"]
        if len(sent) != 1 or sent[0] != Ack(s):
            return "watermark %d, %r: acks %r" % (h, r, sent)
        if bool(handled) != (s > h):
            return "watermark %d, %r: dispatched=%r" % (h, r, handled)
        if inb._highest_inbound_acked != max(h, s):
            return "watermark %d, seqnum %d -> %d" % (h, s, inb._highest_inbound_acked)
        return None


_schedule_jobs = jobs


def jobs(tier):  # noqa: F811
    return [AckStep(), InboundStep()] + _schedule_jobs(tier)
