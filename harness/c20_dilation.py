"""C20, dilation half: the `connection-hints` dilation message with arbitrary JSON in hint position, through the real
Manager.received_dilation_message -> rx_HINTS -> use_hints -> parse_hint -> Connector.got_hints/_use_hints/_schedule_connection."""
from harness.common import Job, check
from symrun import core, loader
from symrun.core import eng
from symrun.values import fresh_enum, sym_or, sym_not, sym_and, SymEnum
from wormhole import _hints as H
from wormhole._dilation import manager as MGR, connector as CN


class DilationHints(Job):
    functions = ["_dilation.manager.Manager.received_dilation_message/rx_HINTS/use_hints", "_dilation.connector.Connector.got_hints/_use_hints/_schedule_connection",
                 "_hints.parse_hint", "_hints.endpoint_from_hint_obj", "_hints.describe_hint_obj"]
    shadows = ["manager.bytes_to_dict (hands over the symbolic JSON message)", "_hints endpoint classes (recorders)", "_hints.isinstance", "connector.isinstance"]

    def __init__(self, n, shape):
        self.n, self.shape = n, shape
        self.name = "dilation_hints_%s%d" % (shape, n)
        self.bounds = dict(hints=n, shape=shape)
        self.must_reach = ("nt:handled",)

    def run(self, hints_value, symbolic):
        from harness import c20
        from env.dilation import DWorld
        rec, log = [], c20.LogRec()
        with DWorld() as w:
            A, B = w.sides
            w.start(0)
            w.start(1)
            w.deliver_msg(1)          # B's please -> A is CONNECTING
            assert A.state() == "CONNECTING", A.state()
            msg = {"type": "connection-hints"}
            if hints_value is not c20.ABSENT:
                msg["hints"] = hints_value
            sh = [(MGR, "bytes_to_dict", lambda pt: msg)] + c20.hint_shadows(rec, log)[1:4] + [(H, "log", log), (MGR, "log", log)]
            if symbolic:
                sh += [(H, "isinstance", c20.sym_isinstance), (CN, "isinstance", c20.sym_isinstance), (MGR, "isinstance", c20.sym_isinstance),
                       (H, "isIPAddress", c20.is_ip(H.isIPAddress)), (H, "isIPv6Address", c20.is_ip(H.isIPv6Address))]
            with loader.shadow(*sh):
                A.call("received_dilation_message", A.m.received_dilation_message, b"{}")
                for _ in range(4):
                    w.fire_timer()
            return rec, list(A.errors), list(w.logged) + [m for m in log.m if m and m[0] == "err"]

    def scenario(self):
        from harness import c20
        if self.shape == "toplevel":
            k = eng().choose(5, "toplevel")
            hv = [c20.ABSENT, 5, None, "str", {"a": 1}][k]
            eng().inputs["hints"] = "<absent>" if hv is c20.ABSENT else hv
            hints = []
        else:
            hints = c20.fresh_hint_list(self.n, honest=(self.shape == "honest"))
            hv = hints
            eng().inputs["hints"] = hints
        rec, errs, logged = self.run(hv, True)
        for e in errs:
            check(False, "%s raised %s" % (e[0], e[1]))
        for l in logged:
            check(False, "error logged while handling hints: %s" % (l if isinstance(l, str) else l[1:2],))
        for h in hints:
            if not isinstance(h, c20.SymHintDict):
                continue
            if c20.was_dialled(rec, h):
                check(c20.sym_valid_tcp(h, ["direct-tcp-v1"]), "direct hint dialled although it is invalid")
            elif self.shape == "honest":
                check(sym_or(sym_not(c20.sym_valid_tcp(h, ["direct-tcp-v1"])), c20.dialled_value(rec, h)), "well-formed direct hint not dialled")
            for sub in h.subs:
                lists_with = [lst for lst in h.f["hints"].vals if isinstance(lst, list) and any(x is sub for x in lst)] if isinstance(h.f["hints"], SymEnum) else []
                in_list = sym_or(*[h.f["hints"] == lst for lst in lists_with]) if lists_with else False
                vj = sym_and(h.f["type"] == "relay-v1", in_list, c20.sym_valid_tcp(sub, ["direct-tcp-v1"]))
                if c20.was_dialled(rec, sub):
                    check(vj, "relay sub-hint dialled although it is invalid")
                elif self.shape == "honest":
                    check(sym_or(sym_not(vj), c20.dialled_value(rec, sub)), "well-formed relay sub-hint not dialled")
        eng().note("nt:handled")

    def replay(self, inp, label):
        from harness import c20
        hv = inp["hints"]
        if hv == "<absent>":
            hv = c20.ABSENT
        rec, errs, logged = self.run(hv, False)
        if errs:
            return "connection-hints %r: %s raised %s: %s" % (inp["hints"], errs[0][0], errs[0][1], errs[0][2])
        if logged:
            return "connection-hints %r: error logged %r" % (inp["hints"], logged[0])
        if isinstance(hv, list):
            got = set((repr(e.host), repr(e.port)) for e in rec)
            exp = set((repr(h), repr(p)) for h, p in c20.expected_targets(hv))
            if not got <= exp:
                return "connection-hints %r: dialled %r, valid hints are only %r" % (hv, sorted(got), sorted(exp))
            if self.shape == "honest" and got != exp:
                return "well-formed connection-hints %r: dialled %r, expected %r" % (hv, sorted(got), sorted(exp))
        return None


def jobs(tier):
    J = [DilationHints(0, "toplevel"), DilationHints(1, "any"), DilationHints(2, "any"), DilationHints(2, "honest")]
    if tier == "thorough":
        J += [DilationHints(3, "any"), DilationHints(3, "honest")]
    return J
