def jobs(tier):
    return []
