"""C18 - Application events arrive once each and in causal order."""
import sys
from harness import common
from symrun import loader
loader.install()
from harness.composed import payload  # noqa: E402
from harness.explore import Explore, make_jobs, make_random_jobs  # noqa: E402

CONFIGS = {
    "set-set": dict(modes=("set", "set"), nmsg=(2, 2)),
    "alloc-set": dict(modes=("allocate", "set")),
    "alloc-input": dict(modes=("allocate", "input")),
    "set-set-dup": dict(modes=("set", "set"), nmsg=(2, 1), adversary=("dup",)),
    "set-set-wrongcode": dict(modes=("set", "set"), wrong_code=True),
    "set-set-deferred": dict(modes=("set", "set"), delegated=(False, False)),
    # the Deferred API used with nested callbacks (get_versions()/get_message() asked for from inside the key callback, the verifier up front)
    "set-set-deferred-nested": dict(modes=("set", "set"), delegated=(False, False), auto_get="nested"),
    "alloc-set-deferred-getters": dict(modes=("allocate", "set"), delegated=(False, False), auto_get=False, getters=True),
    "set-set-srverror": dict(modes=("set", "set"), adversary=("srv_error",)),
    # an internal error (a non-hex message body makes the receive path raise, RendezvousConnector reports it to Boss.error) at any point,
    # including while closing: the application still sees each event once and `closed` last
    "set-set-internal-error": dict(modes=("set", "set"), adversary=("badhex",)),
    "set-set-lossy-burst": dict(modes=("set", "set"), nmsg=(1, 1), eager=False, canon="burst", max_opens=4),
    "alloc-set-lossy-burst": dict(modes=("allocate", "set"), nmsg=(1, 1), eager=False, canon="burst", max_opens=4),
    "set-set-lossy-lazy": dict(modes=("set", "set"), nmsg=(1, 1), eager=False, canon="lazy", max_opens=4),
}
ONCE = ("code", "key", "verifier", "versions", "closed")
RANK = {"code": 0, "key": 1, "verifier": 2, "versions": 3, "message": 3, "closed": 4}


class EventExplore(Explore):
    configs = CONFIGS

    def violations(self, sim, when):
        out = []
        if any(c.errors for c in sim.cl) and "badhex" not in sim.adv:
            return out      # internal failures are C14's subject (except the one this configuration injects on purpose)
        order_preserving = "dup" not in sim.adv and "third" not in sim.adv
        for i, c in enumerate(sim.cl):
            ev = [e for e in c.ev if e[0] in RANK]
            if c.delegated or (not sim.getters):
                for tag in ONCE:
                    if sum(1 for e in ev if e[0] == tag) > 1:
                        out.append(("event delivered twice", "%s: %s in %r" % (c.name, tag, [e[0] for e in ev])))
                last = -1
                for e in ev:
                    r = RANK[e[0]]
                    if r < last:
                        out.append(("events out of causal order", "%s: %r" % (c.name, [x[0] for x in ev])))
                        break
                    last = max(last, r)
                tags = [e[0] for e in ev]
                if "verifier" in tags:
                    vi = tags.index("verifier")
                    if any(t in ("versions", "message") for t in tags[:vi]):
                        out.append(("peer data before the verifier", "%s: %r" % (c.name, tags)))
                elif any(t in ("versions", "message") for t in tags):
                    out.append(("peer data without a verifier", "%s: %r" % (c.name, tags)))
                if order_preserving and "message" in tags:
                    if "versions" not in tags[:tags.index("message")]:
                        out.append(("application message before the peer's versions on an order-preserving server", "%s: %r" % (c.name, tags)))
                if "closed" in tags and tags.index("closed") != len(tags) - 1:
                    out.append(("event after closed", "%s: %r" % (c.name, tags)))
            if when == "settled" and not c.delegated:
                is_closed = bool(c.deferred_results.get("close")) and all(ent for ent in c.deferred_results["close"]) or c.w._closed
                if c.w._closed:
                    # every outstanding get_* must have failed or fired; every *future* get_* must fail
                    for what, ents in c.deferred_results.items():
                        for ent in ents:
                            if not ent:
                                out.append(("Deferred still pending after closed", "%s.%s()" % (c.name, what)))
                    for what in ("get_welcome", "get_code", "get_unverified_key", "get_verifier", "get_versions", "get_message"):
                        ent = c.get(what)
                        sim.world.settle()
                        if not ent:
                            out.append(("get_*() after closed left pending", "%s.%s()" % (c.name, what)))
                        elif ent[0][0] != "err":
                            out.append(("get_*() after closed did not fail", "%s.%s() -> %r" % (c.name, what, ent[0][0])))
                if sim.getters:
                    # results obtained through explicit get_message() calls are a prefix of what the peer sent, in order
                    got = [ent[0][1] for (what, ent, _) in getattr(c, "get_log", []) if what == "get_message" and ent and ent[0][0] == "ok"]
                    peer_sent = [payload("AB"[1 - i], n) for n in range(sim.api[1 - i]["sent"])] if len(sim.cl) == 2 else []
                    if got != peer_sent[:len(got)]:
                        out.append(("get_message() results are not the peer's messages in order", "%s: %r vs %r" % (c.name, got, peer_sent)))
        return out

    def classify(self, label):
        return label.split(":")[0]


class GetterBursts(EventExplore):
    """pipelined reads: several get_*() calls (up to three get_message()) outstanding when the wormhole closes - free steps restricted to
    get_*()/close so that a deeper schedule stays affordable"""
    configs = {"alloc-set-deferred-getters": CONFIGS["alloc-set-deferred-getters"]}
    allowed = {"get", "close"}

    def __init__(self, cfg, plo, phi, k):
        EventExplore.__init__(self, cfg, plo, phi, k)
        self.name = "getter_bursts_%s_p%d-%d_k%d" % (cfg, plo, phi, k)

    def free_actions(self, sim):
        return [a for a in sim.enabled() if a[0] == "close" or (a[0] == "get" and a[2] == "get_message")]


def jobs(tier):
    return make_jobs(EventExplore, tier, 2, 3) + make_random_jobs(EventExplore, tier) + make_jobs(GetterBursts, tier, 3, 4, stepq=8, stept=6)


ASSUMPTIONS = [
    "server/connectivity model env/client.py; ideal PAKE/AEAD",
    "deferred API: either every get_*() is requested up front (events recorded in firing order) or get_*() calls are schedule actions (config *-getters)",
    "order-preserving server = the default FIFO delivery of the model; the dup configuration (duplicated/reordered delivery) drops the versions-before-messages clause only",
    "bounded: every prefix of one canonical honest run per configuration + k arbitrary steps + fair completion",
]

if __name__ == "__main__":
    sys.exit(common.main("C18", "harness.c18", level="other", extra_assumptions=ASSUMPTIONS,
                         trusted_base=["env/client.py server/connectivity model", "ideal PAKE/AEAD"],
                         explanation="bounded symbolic schedules over the real composed client(s), delegated and deferred API: each event at most once, causal order, "
                                     "verifier before peer data, versions before messages on an order-preserving server, nothing after closed, every get_* Deferred fails after closed"))
