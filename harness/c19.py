"""C19 - Codes are well-formed with the promised entropy; code entry is consistent."""
import sys
import ast
import inspect
import builtins
from harness import common
from harness.common import Job, check
from symrun import loader
loader.install()
from symrun import core  # noqa: E402
from symrun.core import eng  # noqa: E402
from symrun import values as V  # noqa: E402
from symrun import regex as RX  # noqa: E402
from symrun.values import SymStr, SymBytes, SymBool, SymInt, fresh_str, fresh_bytes, sym_and, sym_or, sym_not  # noqa: E402
import z3  # noqa: E402

from zope.interface import implementer  # noqa: E402
from wormhole import _wordlist as WL, _code as CODE, _nameplate as NP, _allocator as AL, _input as INP, _interfaces, errors  # noqa: E402
from wormhole.timing import DebugTiming  # noqa: E402


def regex_literals(fn):
    """string literals passed as first argument to re.search/re.match in the *current* source of fn"""
    import textwrap
    src = textwrap.dedent(inspect.getsource(fn))
    out = []
    for node in ast.walk(ast.parse(src)):
        if isinstance(node, ast.Call) and isinstance(node.func, ast.Attribute) and node.func.attr in ("search", "match", "fullmatch") \
                and node.args and isinstance(node.args[0], ast.Constant) and isinstance(node.args[0].value, str):
            out.append((node.func.attr, node.args[0].value))
    return out


# --------------------------------------------------------------------- (1) choose_words / allocation
class SymPick:
    """table[b] for a symbolic byte b"""
    def __init__(self, term, table, draw_index):
        self.term, self.table, self.draw = term, table, draw_index

    def lower(self):
        return SymPick(self.term, {k: v.lower() for k, v in self.table.items()}, self.draw)

    def concretise(self, m):
        return self.table[bytes([m.eval(self.term, model_completion=True).as_long()])]


class SymJoin:
    def __init__(self, sep, parts):
        self.sep, self.parts = sep, parts

    def __radd__(self, o):
        return SymJoin2(o, self)

    def concretise(self, m):
        return self.sep.join(p.concretise(m) if hasattr(p, "concretise") else p for p in self.parts)


class SymJoin2:
    def __init__(self, prefix, j):
        self.prefix, self.j = prefix, j

    def startswith(self, p):
        return self.prefix.startswith(p) if len(p) <= len(self.prefix) else False

    def concretise(self, m):
        return (self.prefix.concretise(m) if hasattr(self.prefix, "concretise") else self.prefix) + self.j.concretise(m)


class TableProxy(dict):
    """the module's byte->word dict; a symbolic 1-byte key yields a SymPick instead of forking 256 ways"""
    draws = None

    def __getitem__(self, k):
        if isinstance(k, SymBytes):
            assert len(k) == 1
            x = k.e[0]
            idx = [i for i, d in enumerate(TableProxy.draws) if d is k][0]
            return SymPick(x if z3.is_expr(x) else z3.IntVal(x), dict(self), idx)
        return dict.__getitem__(self, k)


class ChooseWords(Job):
    functions = ["_wordlist.PGPWordList.choose_words", "_allocator.Allocator.build_and_notify"]
    shadows = ["_wordlist.os.urandom (symbolic bytes)", "_wordlist.byte_to_odd_word/byte_to_even_word (table proxies: symbolic byte -> symbolic pick, no 256-way fork)"]

    def __init__(self, n):
        self.n = n
        self.name = "choose_words_%d" % n
        self.bounds = dict(code_length=n, random_bytes="each urandom byte symbolic 0..255")
        self.must_reach = ("nt:code",)

    def scenario(self):
        n = self.n
        draws = []
        TableProxy.draws = draws
        sizes = []

        class FakeOS:
            @staticmethod
            def urandom(k):
                sizes.append(k)
                b = fresh_bytes("rnd%d" % len(draws), k)
                eng().inputs["rnd%d" % len(draws)] = b
                draws.append(b)
                return b

        odd, even = TableProxy(WL.byte_to_odd_word), TableProxy(WL.byte_to_even_word)

        def sym_call_join(recv, name, *a, **kw):
            if name == "join" and a and any(isinstance(p, SymPick) for p in a[0]):
                return SymJoin(recv, list(a[0]))
            return getattr(recv, name)(*a, **kw)

        @implementer(_interfaces.ICode)
        class CodeRec:
            def __init__(s):
                s.got = []

            def allocated(s, nameplate, code):
                s.got.append((nameplate, code))

        @implementer(_interfaces.IRendezvousConnector)
        class RCRec:
            def __init__(s):
                s.tx = []

            def tx_allocate(s):
                s.tx.append("allocate")

        np_len = eng().choose(3, "nameplate_len") + 1
        nameplate = fresh_str("nameplate", np_len, 48, 58)
        eng().inputs["nameplate"] = nameplate
        with loader.shadow((WL, "os", FakeOS), (WL, "byte_to_odd_word", odd), (WL, "byte_to_even_word", even),
                           (WL, "__sym_call__", sym_call_join)):
            a = AL.Allocator(DebugTiming())
            rc, c = RCRec(), CodeRec()
            a.wire(rc, c)
            # allocate_code() may be called before or after the server connection is up
            order = eng().choose(2, "allocate_before_connect")
            eng().inputs["allocate_before_connect"] = order
            if order:
                a.allocate(n, WL.PGPWordList())
                a.connected()
            else:
                a.connected()
                a.allocate(n, WL.PGPWordList())
            check(rc.tx == ["allocate"], "allocate did not send exactly one allocate command")
            a.rx_allocated(nameplate)
        check(len(c.got) == 1, "no code produced")
        np2, code = c.got[0]
        check(np2 is nameplate, "nameplate changed")
        check(len(draws) == n and all(k == 1 for k in sizes), "not exactly n one-byte draws")
        check(isinstance(code, SymJoin2) and code.prefix == nameplate + "-" if isinstance(code, SymJoin2) else False,
              "code is not nameplate + '-' + words")
        parts = code.j.parts
        check(code.j.sep == "-" and len(parts) == n, "not exactly n hyphen-separated words")
        lo_odd = {k: v.lower() for k, v in WL.byte_to_odd_word.items()}
        lo_even = {k: v.lower() for k, v in WL.byte_to_even_word.items()}
        for i, p in enumerate(parts):
            check(isinstance(p, SymPick) and p.draw == i, "word %d does not come from draw %d alone" % (i, i))
            check(p.table == (lo_odd if i % 2 == 0 else lo_even), "word %d not taken from the lower-cased %s table" % (i, "odd" if i % 2 == 0 else "even"))
            check(SymBool(p.term == draws[i].e[0]), "word %d index is not the raw random byte" % i)
        # the byte -> word maps are bijections onto 256 distinct hyphen-free words (z3 Distinct over word numbers),
        # so uniform independent bytes give uniform independent words and distinct byte strings give distinct codes
        for tbl, nm in ((lo_odd, "odd"), (lo_even, "even")):
            check(len(tbl) == 256 and set(tbl.keys()) == {bytes([i]) for i in range(256)}, "%s table does not cover all 256 byte values" % nm)
            nums = [z3.IntVal(int.from_bytes(w.encode("utf8"), "big")) for w in tbl.values()]
            check(SymBool(z3.Distinct(*nums)), "%s table has duplicate words after lower-casing" % nm)
            check(all("-" not in w and " " not in w and w for w in tbl.values()), "%s table has an empty word or one with '-'/' '" % nm)
        eng().note("nt:code")
        return ("code",)

    def replay(self, inp, label):
        import os
        n = self.n
        rnd = [inp["rnd%d" % i] for i in range(n) if "rnd%d" % i in inp]
        rnd += [b"\0"] * n
        calls = []

        def fake(k):
            calls.append(k)
            b = rnd[len(calls) - 1]
            return (b * k)[:k]
        real = WL.os.urandom
        # through the real Allocator first, in the call order of the counterexample
        got = []
        a = AL.Allocator(DebugTiming())

        @implementer(_interfaces.ICode)
        class CodeRec2:
            def allocated(s, nameplate, code):
                got.append((nameplate, code))

        @implementer(_interfaces.IRendezvousConnector)
        class RCRec2:
            def tx_allocate(s):
                pass
        a.wire(RCRec2(), CodeRec2())
        WL.os.urandom = fake
        try:
            if inp.get("allocate_before_connect"):
                a.allocate(n, WL.PGPWordList())
                a.connected()
            else:
                a.connected()
                a.allocate(n, WL.PGPWordList())
            a.rx_allocated(inp.get("nameplate", "4"))
        finally:
            WL.os.urandom = real
        if len(got) != 1:
            return "Allocator produced %d codes" % len(got)
        code = got[0][1]
        if not code.startswith(inp.get("nameplate", "4") + "-") or len(code.split("-")) != n + 1:
            return "allocate(%d) %s the connection was up produced %r: not the nameplate followed by exactly %d words" % (
                n, "before" if inp.get("allocate_before_connect") else "after", code, n)
        calls.clear()
        WL.os.urandom = fake
        try:
            words = WL.PGPWordList().choose_words(n)
        finally:
            WL.os.urandom = real
        ws = words.split("-")
        if len(ws) != n:
            return "choose_words(%d) returned %r" % (n, words)
        if calls != [1] * n:
            return "urandom calls %r" % (calls,)
        for i, w in enumerate(ws):
            tbl = WL.byte_to_odd_word if i % 2 == 0 else WL.byte_to_even_word
            if w != tbl[rnd[i][:1]].lower():
                return "word %d is %r for byte %r" % (i, w, rnd[i])
        # the obligation is about the whole table of a position: sweep the byte of every position
        for i in range(n):
            for b in range(256):
                calls.clear()
                rnd[i] = bytes([b])
                WL.os.urandom = fake
                try:
                    ws = WL.PGPWordList().choose_words(n).split("-")
                finally:
                    WL.os.urandom = real
                tbl = WL.byte_to_odd_word if i % 2 == 0 else WL.byte_to_even_word
                if len(ws) != n or ws[i] != tbl[bytes([b])].lower():
                    return "word %d is %r for byte 0x%02x, expected %r" % (i, ws[i] if len(ws) == n else ws, b, tbl[bytes([b])].lower())
        for tbl in (WL.byte_to_odd_word, WL.byte_to_even_word):
            if len({v.lower() for v in tbl.values()}) != 256:
                return "table has duplicates after lower-casing"
        return None


# --------------------------------------------------------------------- (2) validation
def spec_ok_nameplate(s):
    """the property's reading: non-empty, every character a decimal digit (Unicode Nd, as \\d)"""
    return len(s) > 0 and all(any(a <= ord(ch) <= b for a, b in RX.class_ranges(r"\d")) for ch in s)


class RegexInclusion(Job):
    """z3 string theory: language accepted by the regex literal in validate_nameplate (Python semantics) == digits+"""
    name = "nameplate_regex_inclusion"
    functions = ["_nameplate.validate_nameplate (regex literal read from the current source)"]
    shadows = []
    must_reach = ("nt:regex",)
    bounds = dict(strings="unbounded (z3 sequence theory), alphabet = z3's Unicode characters")

    def scenario(self):
        lits = regex_literals(NP.validate_nameplate)
        check(len(lits) == 1, "validate_nameplate no longer uses exactly one regex literal")
        how, pat = lits[0]
        eng().inputs["pattern"] = pat
        s = z3.String("s")
        if how == "fullmatch":
            pat = "^" + pat.lstrip("^").rstrip("$") + "\\Z"
        elif how == "match" and not pat.startswith("^"):
            pat = "^" + pat         # re.match anchors at the start
        L = RX.to_z3(pat)
        D = RX.ranges_re(RX.class_ranges(r"\d"))
        spec = z3.Plus(D)
        sol = z3.Solver()
        sol.set("timeout", 60000)
        sol.add(z3.InRe(s, L), z3.Not(z3.InRe(s, spec)))
        r = sol.check()
        eng().stats.queries += 1
        if r == z3.unknown:
            raise core.Inconclusive("string solver unknown")
        if r == z3.sat:
            w = sol.model()[s].as_string()
            w = z3_unescape(w)
            eng().inputs["witness"] = w
            check(False, "validate_nameplate accepts a non-numeric nameplate")
        sol = z3.Solver()
        sol.set("timeout", 60000)
        sol.add(z3.InRe(s, spec), z3.Not(z3.InRe(s, L)))
        r = sol.check()
        eng().stats.queries += 1
        if r == z3.unknown:
            raise core.Inconclusive("string solver unknown")
        if r == z3.sat:
            eng().inputs["witness"] = z3_unescape(sol.model()[s].as_string())
            check(False, "validate_nameplate rejects a numeric nameplate")
        eng().stats.obligations += 2
        eng().stats.discharged += 2
        eng().note("nt:regex")

    def key(self, inp, label):
        return "%s: %r" % (label, inp.get("witness"))

    def replay(self, inp, label):
        w = inp.get("witness")
        if w is None:
            return None
        try:
            NP.validate_nameplate(w)
            acc = True
        except errors.KeyFormatError:
            acc = False
        if acc and not spec_ok_nameplate(w):
            return "validate_nameplate(%r) accepted a nameplate that is not all digits" % (w,)
        if not acc and spec_ok_nameplate(w):
            return "validate_nameplate(%r) rejected an all-digit nameplate" % (w,)
        return None


def z3_unescape(w):
    import re
    return re.sub(r"\\u\{([0-9a-fA-F]+)\}", lambda m: chr(int(m.group(1), 16)), w)


class Validate(Job):
    """the real validate_code / Code.set_code / Input.choose_nameplate on a fully symbolic string"""
    functions = ["_code.validate_code", "_nameplate.validate_nameplate", "_code.Code.set_code", "_input.Input.choose_nameplate"]
    shadows = ["_nameplate.re (regex literal interpreted element-wise with Python semantics, symrun/regex.py)"]

    def __init__(self, n, via):
        self.n, self.via = n, via
        self.name = "validate_%s_%d" % (via, n)
        self.bounds = dict(string_len=n, alphabet="all Unicode code points except surrogates", entry=via)
        self.must_reach = ("nt:rejected",) + (("nt:accepted",) if n >= 1 else ())

    def run(self, s):
        calls = []

        class Rec:
            def __init__(s2, nm):
                s2.nm = nm

            def __getattr__(s2, k):
                return lambda *a, **kw: calls.append((s2.nm, k))
        if self.via == "set_code":
            c = CODE.Code(DebugTiming())
            c._B, c._A, c._N, c._K, c._I = Rec("B"), Rec("A"), Rec("N"), Rec("K"), Rec("I")
            fn = lambda: c.set_code(s)  # noqa: E731
        elif self.via == "choose_nameplate":
            i = INP.Input(DebugTiming())
            i._C, i._L = Rec("C"), Rec("L")
            h = i.start()
            calls.clear()
            fn = lambda: h.choose_nameplate(s)  # noqa: E731
        else:
            fn = lambda: CODE.validate_code(s)  # noqa: E731
        try:
            fn()
            return "accepted", calls
        except errors.KeyFormatError:
            return "rejected", calls

    def scenario(self):
        s = fresh_str("code", self.n)
        eng().inputs["code"] = s
        rx = RX.SymReModule()
        with loader.shadow((NP, "re", rx)):
            verdict, calls = self.run(s)
        cps = s.c
        if self.via == "choose_nameplate":
            np_ok = RX.match_symstr(r"^\d+\Z", s) if self.n else False
            spaces = False
        else:
            # nameplate = text before the first '-'
            alts = []
            for k in range(self.n + 1):
                head = [zc != 45 for zc in cps[:k]]
                stop = [cps[k] == 45] if k < self.n else []
                digits = RX.match_symstr(r"^\d+\Z", SymStr(cps[:k])) if k else False
                alts.append(sym_and(*(head + stop + [digits])) if (head or stop) else digits)
            np_ok = sym_or(*alts)
            spaces = sym_or(*[SymBool(zc == 32) for zc in cps]) if cps else False
        good = sym_and(np_ok, sym_not(spaces))
        if verdict == "accepted":
            check(good, "malformed code/nameplate accepted")
            eng().note("nt:accepted")
        else:
            check(sym_not(good), "well-formed code/nameplate rejected")
            check(not calls, "something was sent/forwarded although the code was rejected")
            eng().note("nt:rejected")
        return (verdict,)

    def validate(self, inp, observed):
        verdict, calls = self.run(inp["code"])
        if (verdict,) != tuple(observed):
            return "symbolic %r vs concrete %r on %r" % (observed, verdict, inp)

    def key(self, inp, label):
        c = inp["code"]
        if label == "malformed code/nameplate accepted":
            if c.endswith("\n"):
                return "nameplate/code with trailing newline accepted"
        return label

    def replay(self, inp, label):
        s = inp["code"]
        verdict, calls = self.run(s)
        if self.via == "choose_nameplate":
            good = spec_ok_nameplate(s)
        else:
            good = " " not in s and spec_ok_nameplate(s.split("-")[0])
        if verdict == "accepted" and not good:
            return "%s(%r) accepted a malformed value" % (self.via, s)
        if verdict == "rejected" and good:
            return "%s(%r) rejected a well-formed value" % (self.via, s)
        if verdict == "rejected" and calls:
            return "%s(%r): rejected but %r was called" % (self.via, s, calls)
        return None


# --------------------------------------------------------------------- (3) completions
class SymSet:
    def __init__(self, it=()):
        self.items = list(it)

    def add(self, x):
        self.items.append(x)

    def __iter__(self):
        return iter(self.items)

    def __len__(self):
        return len(self.items)


class Completions(Job):
    functions = ["_wordlist.PGPWordList.get_completions", "_input.Input.get_word_completions/_get_word_completions"]
    shadows = ["_wordlist.set (list-backed set: completions hold symbolic strings)"]

    def __init__(self, n, hyphens):
        self.n, self.h = n, hyphens
        self.name = "completions_len%d_hyph%d" % (n, hyphens)
        self.bounds = dict(prefix_len=n, hyphens_in_prefix=hyphens, alphabet="all Unicode code points except surrogates",
                           num_words=2)
        self.must_reach = ("nt:some-completions",) if hyphens <= 1 else ()

    def scenario(self):
        p = fresh_str("prefix", self.n)
        eng().inputs["prefix"] = p
        # fix the number of hyphens for this job (partition of the input space, all partitions are jobs)
        if self.n:
            cnt = z3.Sum([z3.If(c == 45, 1, 0) for c in p.c])
            eng().assume(cnt == self.h)
        elif self.h:
            raise core._Abort()
        with loader.shadow((WL, "set", SymSet)):
            i = INP.Input(DebugTiming())

            class Rec:
                def __getattr__(s2, k):
                    return lambda *a, **kw: None
            i._C, i._L = Rec(), Rec()
            h = i.start()
            h.choose_nameplate("4")
            i.got_wordlist(WL.PGPWordList())
            comps = h.get_word_completions(p)
        comps = list(comps)
        # the reference lists are computed here from the byte->word tables choose_words() draws from (not taken from the completion sets themselves)
        odd = {w.lower() for w in WL.byte_to_odd_word.values()}
        even = {w.lower() for w in WL.byte_to_even_word.values()}
        for c in comps:
            check(c.startswith(p), "a completion does not extend what was typed")
        # structure: typed words w0..w(h-1) complete, last partial
        parts = p.split("-")
        for c in comps:
            cp = c.split("-") if isinstance(c, SymStr) else c.split("-")
            k = self.h
            check(len(cp) >= k + 1, "completion lost a word")
            last = cp[k]
            tbl = odd if k % 2 == 0 else even
            lastc = last.concrete() if isinstance(last, SymStr) and last.is_concrete() else last
            check(isinstance(lastc, str) and lastc in tbl, "completed word is not from the list of the right parity")
            if k + 1 < 2:
                check(len(cp) == k + 2 and len(cp[k + 1]) == 0, "missing trailing hyphen before the next word")
            else:
                check(len(cp) == k + 1, "unexpected trailing hyphen")
            # if all previously typed words are list words of the right parity and the word count is the default 2,
            # the finished completion is exactly a code body choose_words(2) can produce
            if k + 1 == 2:
                w0 = cp[0]
                w0_ok = sym_or(*[w0 == w for w in odd if len(w) == len(w0)]) if any(len(w) == len(w0) for w in odd) else False
                if w0_ok is not False and bool(w0_ok):
                    eng().note("nt:producible")
        eng().note("nt:some-completions" if comps else "nt:no-completions")
        return (len(comps),)

    def validate(self, inp, observed):
        got = WL.PGPWordList().get_completions(inp["prefix"])
        if (len(got),) != tuple(observed):
            return "symbolic %r vs concrete %d completions for %r" % (observed, len(got), inp["prefix"])

    def replay(self, inp, label):
        p = inp["prefix"]
        got = WL.PGPWordList().get_completions(p)
        k = p.count("-")
        for c in got:
            if not c.startswith(p):
                return "completion %r does not extend %r" % (c, p)
            cp = c.split("-")
            tbl = {w.lower() for w in (WL.byte_to_odd_word if k % 2 == 0 else WL.byte_to_even_word).values()}
            if len(cp) < k + 1 or cp[k] not in tbl:
                return "completion %r of %r: word %d not from the right list" % (c, p, k)
            if k + 1 < 2 and not c.endswith("-"):
                return "completion %r lacks the hyphen for the next word" % (c,)
            if k + 1 >= 2 and c.endswith("-"):
                return "completion %r has a trailing hyphen" % (c,)
        return None


class InputTable(Job):
    """every helper call in every Input state has a row (never NoTransition): table read from the current class"""
    name = "input_helper_rows"
    functions = ["_input.Input (Automat table by introspection)"]
    must_reach = ("nt:table",)
    bounds = dict(states="all", helper_inputs="refresh_nameplates,get_nameplate_completions,_choose_nameplate,get_word_completions,choose_words")

    def scenario(self):
        a = INP.Input.m._automaton
        states = {t[0] for t in a._transitions} | {t[2] for t in a._transitions}
        rows = {(t[0].method.__name__ if hasattr(t[0], "method") else str(t[0]),
                 t[1].method.__name__ if hasattr(t[1], "method") else str(t[1])) for t in a._transitions}
        names = sorted({r[0] for r in rows})
        helper = ["refresh_nameplates", "get_nameplate_completions", "_choose_nameplate", "get_word_completions", "choose_words"]
        si = eng().choose(len(names), "state")
        hi = eng().choose(len(helper), "input")
        eng().inputs.update(state=names[si], input=helper[hi])
        if names[si] != "S0_idle":      # the helper object only exists after start()
            check((names[si], helper[hi]) in rows, "helper call without a transition row")
        eng().note("nt:table")

    def replay(self, inp, label):
        a = INP.Input.m._automaton
        rows = {(t[0].method.__name__, t[1].method.__name__) for t in a._transitions}
        if (inp["state"], inp["input"]) not in rows:
            return "Input has no row for %s in state %s" % (inp["input"], inp["state"])
        return None


def jobs(tier):
    thorough = tier == "thorough"
    J = [ChooseWords(n) for n in ((1, 2, 3, 4) if thorough else (1, 2, 3))]
    J.append(RegexInclusion())
    for via in ("validate_code", "set_code", "choose_nameplate"):
        for n in (range(0, 6) if thorough else range(0, 5)):
            J.append(Validate(n, via))
    maxlen = 6 if thorough else 4
    for n in range(0, maxlen + 1):
        for h in range(0, min(n, 3) + 1):
            J.append(Completions(n, h))
    J.append(InputTable())
    from harness import c19_api, c19_rl
    J += c19_api.jobs(tier)
    J += c19_rl.jobs(tier)
    return J


ASSUMPTIONS = [
    "os.urandom returns arbitrary bytes (symbolic); uniformity/independence of the OS source is the environment's contract, "
    "the check shows the map bytes->code is a bijection per word position that uses each draw exactly once",
    "numeric nameplate = non-empty, all characters in the class the running re module calls \\d (Unicode decimal digits)",
    "code well-formedness as stated in the property: no U+0020 and a numeric nameplate before the first '-'; other whitespace in the word part is not claimed either way",
    "completions: default num_words=2 as used by Input; prefixes up to the stated length",
]

if __name__ == "__main__":
    sys.exit(common.main("C19", "harness.c19", level="other", extra_assumptions=ASSUMPTIONS,
                         trusted_base=["symrun/regex.py translation of the regex literal (cross-checked per path against the real re)"],
                         explanation="bounded symbolic execution (symrun + z3) of the real choose_words/allocation, validate_code/validate_nameplate "
                                     "(plus a z3 string-theory language inclusion for the regex literal), get_completions on fully symbolic prefixes, "
                                     "Input table completeness, and the only-one-code-method rule on the real Boss"))
