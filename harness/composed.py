"""Bounded symbolic schedules over the real composed client(s) (env/client.py).

A *schedule* is a list of actions.  `Sim.enabled()` lists the actions the environment model permits in the
current state (legal API calls, connection open/drop, delivery of the next owed server message, duplicated /
reordered `message` delivery, a third mailbox participant, server errors, ClientService stop completion,
eventual-queue turns); `choose()` makes the pick a solver variable that symrun case-splits.  Exploration is
"canonical prefix + k free steps + fair completion": for every prefix of a canonical honest run the next k
actions are arbitrary, then everything owed is delivered (`World.settle`) and the oracles are evaluated.
"""
from harness.common import Job, check
from symrun import core
from symrun.core import eng
from env.client import World, Client
from wormhole.util import bytes_to_hexstr

CODE = "7-purple-sausages"
THIRD = "cccccccccc"


def payload(side, n):
    """the n-th application message of client `side` in an honest run: distinct per (side, index); B's second message is the EMPTY
    byte string (a legal payload whose ciphertext is exactly nonce+MAC long), the others differ in length"""
    if isinstance(side, bytes):
        side = side.decode()
    if side == "B" and n == 1:
        return b""
    return b"msg-%s-%d" % (side.encode(), n) + b"." * (n * 3)


class Sim:
    def __init__(self, modes=("set", "set"), nmsg=(1, 1), delegated=(True, True), adversary=(), eager=True,
                 welcome_error=False, wrong_code=False, max_opens=3, appids=("appid", "appid"), auto_get=True, getters=False, helper_calls=False):
        self.modes, self.nmsg, self.adv, self.max_opens = modes, nmsg, set(adversary), max_opens
        self.world = World()
        self.world.__enter__()
        self.world.server.eager = eager
        if welcome_error:
            self.world.server.welcome = {"error": "go away"}
        self.cl = [Client(self.world, "AB"[i], delegated=delegated[i], appid=appids[i], auto_get=auto_get) for i in range(len(modes))]
        self.getters = getters      # deferred API: get_*() calls are schedule actions
        self.helper_calls = helper_calls   # input_code() helper: refresh_nameplates()/get_*_completions() are schedule actions
        self.hcalls = [dict() for _ in modes]
        self.got = [dict() for _ in modes]
        self.api = [dict(code=False, sent=0, closed=False, helper=None, np=False, words=False, opens=0) for _ in modes]
        self.wrong_code = wrong_code
        self.trace = []
        self.third_added = set()
        self.dups = 0
        self.errs_sent = 0
        self.badhex = 0
        self.failopens = 0
        self.gets = [dict() for _ in modes]

    def close_world(self):
        self.world.__exit__(None, None, None)

    # ---- helpers
    def known_code(self):
        for c in self.cl:
            for e in c.ev:
                if e[0] == "code":
                    return e[1]
            if not c.delegated:
                r = c.deferred_results.get("get_code")
                if r and r[0] and r[0][0][0] == "ok":
                    return r[0][0][1]
                # the environment (the human reading the code out) learns it as soon as the wormhole has it
                obs = getattr(c.w, "_code_observer", None)
                res = getattr(obs, "_result", None)
                if isinstance(res, str):
                    return res
        return None

    def code_for(self, i):
        m = self.modes[i]
        if m == "set":
            other = [j for j in range(len(self.modes)) if j != i and self.modes[j] == "allocate"]
            if other:
                code = self.known_code()
                if code is None:
                    return None
            else:
                code = CODE
            if self.wrong_code and i == 1:
                code = code + "x"
            return code
        return None

    def mailbox_msgs(self, c):
        if c.conn is None or c.conn.sub is None:
            return []
        return self.world.server.mailbox(c.conn.sub)["msgs"]

    # ---- actions
    def enabled(self):
        acts = []
        for i, c in enumerate(self.cl):
            a = self.api[i]
            X = "AB"[i]
            m = self.modes[i]
            if not a["code"] and not a["closed"]:
                if m == "set" and self.code_for(i) is not None:
                    acts.append(("set_code", X))
                elif m == "allocate":
                    acts.append(("allocate", X))
                elif m == "input":
                    acts.append(("input", X))
            if self.helper_calls and m == "input" and a["helper"] is not None and not a["closed"]:
                h = self.hcalls[i]
                if not a["np"]:
                    if h.get("refresh", 0) < 2:
                        acts.append(("helper", X, "refresh"))
                    if h.get("np_completions", 0) < 1:
                        acts.append(("helper", X, "np_completions"))
                elif not a["words"] and h.get("word_completions", 0) < 1:
                    acts.append(("helper", X, "word_completions"))
            partner_allocates = any(self.modes[j] == "allocate" for j in range(len(self.modes)) if j != i)
            if m == "input" and a["helper"] is not None and not a["closed"] and (self.known_code() or not partner_allocates):
                if not a["np"]:
                    acts.append(("choose_nameplate", X))
                elif not a["words"]:
                    acts.append(("choose_words", X))
            if a["sent"] < self.nmsg[i] and not a["closed"]:
                acts.append(("send", X))
            if not a["closed"]:
                acts.append(("close", X))
            if self.getters and not c.delegated:
                for what in ("get_code", "get_unverified_key", "get_verifier", "get_versions", "get_message"):
                    if self.got[i].get(what, 0) < (3 if what == "get_message" else 1):
                        acts.append(("get", X, what))
            if c.svc.stop_d is not None:
                acts.append(("stopped", X))
            if c.conn is None:
                if c.can_connect() and a["opens"] < self.max_opens:
                    acts.append(("open", X))
                    if "unwelcome-later" in self.adv and a["opens"] >= 1 and not getattr(self, "unwelcomes", 0):
                        acts.append(("open_unwelcome", X))
                    if ("failopen" in self.adv or ("failopen-reconnect" in self.adv and a["opens"] > 0)) and self.failopens < (2 if "failopen-reconnect" in self.adv else 1):
                        acts.append(("failopen", X))
            else:
                acts.append(("drop", X))
                if "wsclosing" in self.adv and not getattr(c.ws, "closing", False) and getattr(self, "wsclosings", 0) < 1:
                    # the connection starts going down (closing handshake / FIN seen): until onClose is delivered, sends fail
                    acts.append(("closing", X))
                if c.conn.up:
                    acts.append(("proc", X))
                if c.conn.down:
                    acts.append(("rx", X))
                if "dup" in self.adv and self.dups < 2:
                    for k in range(len(self.mailbox_msgs(c))):
                        acts.append(("dup", X, k))
                if "srv_error" in self.adv and self.errs_sent < 1 and c.conn.side is not None:
                    acts.append(("srv_error", X))
                if "badhex" in self.adv and self.badhex < 1 and "open" in c.conn.log:
                    # (may already be in flight when the client sends its `close`)
                    acts.append(("badhex", X))
        if "third" in self.adv:
            for mid in sorted(self.world.server.mailboxes):
                for ph in ("pake", "pake-nov1", "version", "0"):
                    if (mid, ph) not in self.third_added and len(self.third_added) < 2:
                        acts.append(("third", mid, ph))
        if self.world.clock.getDelayedCalls():
            acts.append(("turn",))
        return acts

    def do(self, act):
        self.trace.append(act)
        kind = act[0]
        if kind == "turn":
            self.world.turn()
            return
        if kind == "third":
            _, mid, ph = act
            self.third_added.add((mid, ph))
            mb = self.world.server.mailbox(mid)
            body = bytes_to_hexstr(b"third-party-" + ph.encode())
            if ph == "pake-nov1":
                # a well-formed JSON object that is not a PAKE message (no pake_v1 key)
                from wormhole.util import dict_to_bytes
                ph, body = "pake", bytes_to_hexstr(dict_to_bytes({"not_pake": 1}))
            mb["msgs"].append((THIRD, ph, body))
            for cn in self.world.server.conns:
                if cn.sub == mid and not getattr(cn, "dead", False):
                    cn.down.append({"type": "message", "side": THIRD, "phase": ph, "body": body})
            return
        i = "AB".index(act[1])
        c, a = self.cl[i], self.api[i]
        if kind == "set_code":
            a["code"] = True
            c.api("set_code", self.code_for(i))
        elif kind == "allocate":
            a["code"] = True
            c.api("allocate_code", 2)
        elif kind == "input":
            a["code"] = True
            a["helper"] = c.api("input_code")
        elif kind == "choose_nameplate":
            a["np"] = True
            code = self.known_code() or CODE
            c._call("helper:choose_nameplate", a["helper"].choose_nameplate, code.split("-")[0])
        elif kind == "choose_words":
            a["words"] = True
            code = self.known_code() or CODE
            words = code.split("-", 1)[1] + ("x" if self.wrong_code else "")
            c._call("helper:choose_words", a["helper"].choose_words, words)
        elif kind == "helper":
            what = act[2]
            self.hcalls[i][what] = self.hcalls[i].get(what, 0) + 1
            hp = a["helper"]
            if what == "refresh":
                c._call("helper:refresh_nameplates", hp.refresh_nameplates)
            elif what == "np_completions":
                c._call("helper:get_nameplate_completions", hp.get_nameplate_completions, "")
            else:
                c._call("helper:get_word_completions", hp.get_word_completions, "")
        elif kind == "send":
            c.api("send_message", payload(act[1], a["sent"]))
            a["sent"] += 1
        elif kind == "get":
            what = act[2]
            self.got[i][what] = self.got[i].get(what, 0) + 1
            entry = c.get(what)
            entry_pos = len(c.ev)
            c.get_log = getattr(c, "get_log", [])
            c.get_log.append((what, entry, len(self.trace)))
        elif kind == "close":
            a["closed"] = True
            c.closed_when = dict(boss=c.state("B"), step=len(self.trace), nev=len(c.ev))
            if c.delegated:
                c.api("close")
            else:
                d = c.api("close")
                if d is not None:
                    entry = []
                    c.deferred_results.setdefault("close", []).append(entry)
                    d.addCallbacks(lambda r: entry.append(("ok", r)), lambda f: entry.append(("err", f.type.__name__)))
        elif kind == "stopped":
            c.fire_stopped()
        elif kind == "failopen":
            # a connection attempt that reaches TCP but fails the WebSocket negotiation: onClose without onOpen
            self.failopens += 1
            c.failed_opens = getattr(c, "failed_opens", 0) + 1
            c.first_attempt_failed = getattr(c, "first_attempt_failed", False) or (a["opens"] == 0)
            c._call("ws_close", c.rc.ws_close, False, 1006, "websocket negotiation failed")
            self.world.settle(deliver=False, stop=False)
        elif kind == "open":
            a["opens"] += 1
            c.open()
        elif kind == "open_unwelcome":
            # a reconnect on which the server's welcome carries an error (the server was restarted refusing clients)
            self.unwelcomes = getattr(self, "unwelcomes", 0) + 1
            a["opens"] += 1
            self.world.server.welcome_next = {"error": "go away (later)"}
            c.open()
        elif kind == "drop":
            c.drop()
        elif kind == "closing":
            self.wsclosings = getattr(self, "wsclosings", 0) + 1
            c.ws.closing = True
        elif kind == "proc":
            self.world.server.process(c.conn, c.conn.up.popleft())
        elif kind == "rx":
            c.rx_next()
        elif kind == "dup":
            self.dups += 1
            s, ph, body = self.mailbox_msgs(c)[act[2]]
            c.rx({"type": "message", "side": s, "phase": ph, "body": body})
        elif kind == "badhex":
            # a mailbox participant adds a message whose body is not hex: the client's handler raises (internal error path)
            self.badhex += 1
            c.rx({"type": "message", "side": THIRD, "phase": "9", "body": "not-hex!"})
        elif kind == "srv_error":
            self.errs_sent += 1
            c.rx({"type": "error", "error": "server says no", "orig": {"type": "x"}})
        else:
            raise AssertionError(act)

    def settle(self):
        """fair completion: reconnect whoever may, deliver everything owed, complete stops, drain turns"""
        for _ in range(6):
            for i, c in enumerate(self.cl):
                if c.conn is not None and getattr(c.ws, "closing", False):
                    c.drop()        # a connection that started closing does finish closing
                if c.conn is None and c.can_connect():
                    c.open()
            self.world.settle()

    def complete(self, close=False):
        """honest completion: the applications go on with whatever an honest run still has to do (enter the code, send the remaining messages;
        close only if asked), everything owed is delivered, repeatedly until nothing more happens"""
        pol = honest_policy(close=close)
        for _ in range(5):
            n = 0
            for _ in range(200):
                a = pol(self, self.enabled())
                if a is None:
                    break
                self.do(a)
                n += 1
            self.settle()
            if not n:
                break

    def canonical(self, policy):
        """run a deterministic policy to completion; returns the action list"""
        out = []
        for _ in range(400):
            acts = self.enabled()
            a = policy(self, acts)
            if a is None:
                break
            self.do(a)
            out.append(a)
        return out


def honest_policy(close=True, order=("open", "rx", "proc", "turn", "set_code", "allocate", "input", "choose_nameplate",
                                     "choose_words", "send", "stopped"), prefer=None):
    def pol(sim, acts):
        if prefer is not None:
            # deliveries to the preferred client first: the other client's inbound queue piles up
            acts = sorted(acts, key=lambda a: 0 if (len(a) > 1 and a[1] == prefer) else 1)
        for kind in order:
            for a in acts:
                if a[0] == kind:
                    if kind == "open" and sim.api["AB".index(a[1])]["opens"] >= 1:
                        continue
                    return a
        if close:
            done = all(len([e for e in c.ev if e[0] == "message"]) >= sim.nmsg[1 - i] for i, c in enumerate(sim.cl)) if len(sim.cl) == 2 else True
            for a in acts:
                if a[0] == "close" and done:
                    return a
        return None
    return pol


def replay_actions(sim, actions):
    """apply a recorded action list; returns False if some action was not enabled (schedule not replayable)"""
    for a in actions:
        a = tuple(a)
        if a not in sim.enabled():
            return False
        sim.do(a)
    return True
