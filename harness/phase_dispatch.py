"""Boss.got_message phase dispatch: which inbound phase names are application messages, dilation control messages, the version message, or unknown.
CONCRETE samples (the dispatch uses the re module, possibly with patterns compiled at import time, which the engine cannot enter): shared by C03
(only all-digit phases are application messages, so nothing else is ever inserted into the application's message sequence) and C11 (every
dilate-N control message reaches the Dilator, for any N)."""
from harness.common import Job, check
from symrun.core import eng
from wormhole import _boss as BOSS


class PhaseDispatch(Job):
    name = "boss_phase_dispatch_samples"
    functions = ["_boss.Boss.got_message (phase-name dispatch)"]
    must_reach = ("nt:dispatch",)
    SAMPLES = [("0", "phase", 0), ("7", "phase", 7), ("10", "phase", 10), ("123", "phase", 123), ("dilate-0", "dilate", 0), ("dilate-9", "dilate", 9),
               ("dilate-10", "dilate", 10), ("dilate-123", "dilate", 123), ("version", "version", None), ("dilate-", "unknown", None),
               ("dilate-x", "unknown", None), ("x1", "unknown", None), ("1x", "unknown", None), ("-1", "unknown", None), ("pake2", "unknown", None),
               ("dilate-1-2", "unknown", None), ("0 ", "unknown", None)]
    bounds = dict(samples=[s[0] for s in SAMPLES], note="concrete samples, not solver-decided")

    def verdict(self, i):
        name, kind, num = self.SAMPLES[i]
        got = []

        class FakeBoss:
            def _got_version(s, pt):
                got.append(("version", None))

            def _got_dilate(s, n, pt):
                got.append(("dilate", n))

            def _got_phase(s, n, pt):
                got.append(("phase", n))

        class Log:
            def err(s, *a, **k):
                got.append(("unknown", None))

            def msg(s, *a, **k):
                pass
        real_log = BOSS.log
        BOSS.log = Log()
        try:
            BOSS.Boss.got_message(FakeBoss(), name, b"plaintext")
        finally:
            BOSS.log = real_log
        if got != [(kind, num)]:
            return "inbound phase %r is handled as %r, expected %r" % (name, got, [(kind, num)])
        return None

    def scenario(self):
        i = eng().choose(len(self.SAMPLES), "sample")
        eng().inputs["sample"] = i
        v = self.verdict(i)
        check(v is None, "phase dispatch: %s" % v)
        eng().note("nt:dispatch")

    def key(self, inp, label):
        return "inbound phase name dispatched to the wrong handler"

    def replay(self, inp, label):
        return self.verdict(inp["sample"])


class HoldBack(Job):
    """the Boss's two in-order hold-back buffers (application phases, dilate-N phases) on solver-chosen interleavings of arrivals of both kinds:
    the application gets exactly its phases 0,1,2.. in order, the Dilator exactly the dilate seqnums in order; nothing crosses over.
    The real _init_other_state / W_received / D_received_dilate run on a bare Boss instance with recording neighbours."""
    name = "boss_holdback_buffers"
    functions = ["_boss.Boss._init_other_state", "Boss.W_received", "Boss.D_received_dilate"]
    must_reach = ("nt:holdback",)
    bounds = dict(arrivals="any order (solver-chosen permutation) of application phases 0..2 and dilate seqnums 0..2")

    def run(self, order):
        app, dil = [], []

        class Rec:
            pass
        b = BOSS.Boss.__new__(BOSS.Boss)
        W, D = Rec(), Rec()
        W.received = app.append
        D.received_dilate = dil.append
        b._W, b._D = W, D
        BOSS.Boss._init_other_state(b)
        wr = BOSS.Boss.__dict__["W_received"].method          # (automat output: the plain function behind the MethodicalOutput)
        dr = BOSS.Boss.__dict__["D_received_dilate"].method
        for kind, n in order:
            if kind == "app":
                wr(b, n, b"app-%d" % n)
            else:
                dr(b, n, b"dilate-%d" % n)
        return app, dil

    def verdict(self, order):
        app, dil = self.run(order)
        if app != [b"app-0", b"app-1", b"app-2"]:
            return "arrival order %r: the application received %r" % (order, app)
        if dil != [b"dilate-0", b"dilate-1", b"dilate-2"]:
            return "arrival order %r: the Dilator received %r" % (order, dil)
        return None

    def scenario(self):
        items = [("app", 0), ("app", 1), ("app", 2), ("dilate", 0), ("dilate", 1), ("dilate", 2)]
        order = []
        while items:
            i = eng().choose(len(items), "next%d" % len(order))
            order.append(items.pop(i))
        eng().inputs["order"] = [list(x) for x in order]
        v = self.verdict(order)
        check(v is None, "hold-back buffers: %s" % v)
        eng().note("nt:holdback")

    def key(self, inp, label):
        return "Boss hold-back buffers deliver a phase to the wrong consumer / out of order"

    def replay(self, inp, label):
        return self.verdict([tuple(x) for x in inp["order"]])
