"""C12 record layer: _Record + _Framer + ideal Noise; DilatedConnectionProtocol rejection of unkeyed input"""
import z3
from harness.common import Job, check
from symrun import core, loader
from symrun.core import eng
from symrun import values as V
from symrun.values import SymInt, SymBytes, fresh_int, fresh_bytes, sym_and, sym_or, sym_not, SymBool
from symrun.rope import SymRope, fresh_blob, sym_len, blob_bytes
from env import noise as N
from zope.interface import implementer
from wormhole._dilation import connection as CX, encode as ENC
from wormhole._dilation.roles import LEADER, FOLLOWER
from wormhole._interfaces import IDilationConnector

PRO_L = b"Magic-Wormhole Dilation Handshake v1 Leader\n\n"
PRO_F = b"Magic-Wormhole Dilation Handshake v1 Follower\n\n"
MAXP = 65519


def shadows():
    from harness import c12
    base = c12.shadows()
    extra = loader.shadow((CX, "len", sym_len), (CX, "range", V.sym_range))

    class Both:
        def __enter__(s):
            base.__enter__(); extra.__enter__()

        def __exit__(s, *a):
            extra.__exit__(*a); base.__exit__(*a)
            return False
    return Both()


def mk_pair(world, psk_l=b"K", psk_f=b"K"):
    from harness.c12 import Tr
    out = []
    for role, po, pi, psk in ((LEADER, PRO_L, PRO_F, psk_l), (FOLLOWER, PRO_F, PRO_L, psk_f)):
        n = N.IdealNoise(world)
        n.set_psks(psk)
        n.set_as_initiator() if role is LEADER else n.set_as_responder()
        t = Tr()
        f = CX._Framer(t, po, pi)
        r = CX._Record(f, n, role)
        r.set_role_leader() if role is LEADER else r.set_role_follower()
        r.connectionMade()
        out.append((r, t))
    return out


def xfer(src_t):
    w, src_t.w[:] = list(src_t.w), []
    return w


def handshake(L, F):
    """run prologue + noise handshake between two _Record objects; returns tokens seen"""
    (l, lt), (f, ft) = L, F
    toks_l, toks_f = [], []
    for _ in range(4):
        for d in xfer(lt):
            toks_f += list(f.add_and_unframe(d))
        for d in xfer(ft):
            toks_l += list(l.add_and_unframe(d))
    return toks_l, toks_f


class MultiPacket(Job):
    name = "record_multipacket"
    functions = ["_dilation.connection._Record.send_record", "_Record.decrypt_message", "_Record.add_and_unframe",
                 "_Framer.send_frame", "_Framer.parse_frame", "encode_record", "parse_record", "to_be4", "from_be4"]
    shadows = ["connection.len (rope length as SymInt)"]
    must_reach = ("nt:packets-1", "nt:packets-2", "nt:packets-3", "nt:packets-5")

    def __init__(self, maxlen):
        self.maxlen = maxlen
        self.bounds = dict(payload_len="symbolic integer in [0, %d]" % maxlen,
                           payload="opaque rope (content never inspected by the code under test)",
                           direction="leader->follower and follower->leader (choose)")

    def scenario(self):
        w = N.World()
        with shadows():
            L, F = mk_pair(w)
            tl, tf = handshake(L, F)
            check([type(x).__name__ for x in tl] == ["Handshake"] and [type(x).__name__ for x in tf] == ["Handshake"],
                  "honest handshake did not complete")
            d = eng().choose(2, "direction")
            eng().inputs["direction"] = d
            (snd, st), (rcv, rt) = (L, F) if d == 0 else (F, L)
            blob = fresh_blob("payload", 0, self.maxlen + 1)
            eng().inputs["payload_len"] = SymInt(blob.length)
            seq = fresh_int("seqnum", 0, 2 ** 32)
            scid = fresh_int("scid", 0, 2 ** 32)
            eng().inputs["seqnum"] = seq
            eng().inputs["scid"] = scid
            rec = CX.Data(seq, scid, SymRope.of_blob(blob))
            try:
                snd.send_record(rec)
            except (core.Escape, core.Inconclusive, core._Abort, core.Counterexample):
                raise
            except Exception as e:
                check(False, "send_record raised %s" % type(e).__name__)
                return
            wr = xfer(st)
            check(len(wr) == 1, "send_record did not produce exactly one write")
            n_enc = sum(1 for e in w.entries if e["kind"] in ("blob", "msg"))
            try:
                got = list(rcv.add_and_unframe(wr[0]))
            except CX.Disconnect:
                check(False, "honest multi-packet record rejected (Disconnect)")
                return
            check(len(got) == 1 and isinstance(got[0], CX.Data), "receiver did not surface exactly one Data record")
            r2 = got[0]
            check(sym_and(r2.seqnum == seq, r2.scid == scid), "seqnum/scid changed")
            check(SymRope.lift(r2.data).eq(SymRope.of_blob(blob)), "payload changed")
            # every decrypt() argument was exactly one honest ciphertext
            check(all(e is not None for e in w.decrypt_log), "decrypt called on something that is not one honest ciphertext")
            check(sym_len(rcv._framer._buffer) == 0, "residual bytes in the receiver's buffer")
            npk = sum(1 for e in w.entries if e["kind"] in ("blob", "msg"))
            eng().note("nt:packets-%d" % npk)

    def replay(self, inp, label):
        w = N.World()
        L, F = mk_pair(w)
        handshake(L, F)
        (snd, st), (rcv, rt) = (L, F) if inp["direction"] == 0 else (F, L)
        data = blob_bytes("payload", inp["payload_len"])
        rec = CX.Data(inp["seqnum"], inp["scid"], data)
        try:
            snd.send_record(rec)
            wr = xfer(st)
            got = list(rcv.add_and_unframe(b"".join(wr)))
        except Exception as e:
            return "honest record of %d payload bytes: %r" % (len(data), e)
        if got != [rec]:
            return "honest record of %d payload bytes came out as %s" % (len(data), [(type(g).__name__, len(getattr(g, "data", b""))) for g in got])
        if any(e is None for e in w.decrypt_log):
            return "decrypt called on a non-ciphertext"
        return None


@implementer(IDilationConnector)
class ConnRec:
    def __init__(self):
        self.cands = []

    def add_candidate(self, p):
        self.cands.append(p)


class MgrRec:
    def __init__(self):
        self.recs = []

    def got_record(self, r):
        self.recs.append(r)

    def have_peer(self, p):
        pass

    def connector_connection_lost(self):
        pass


class EQ:
    def __init__(self):
        self.calls = []

    def eventually(self, f, *a, **kw):
        self.calls.append((f, a, kw))

    def fire_eventually(self, value=None):
        from twisted.internet import defer
        d = defer.Deferred()
        self.calls.append((d.callback, (value,), {}))
        return d

    def flush_sync(self):
        while self.calls:
            f, a, kw = self.calls.pop(0)
            f(*a, **kw)


class Unkeyed(Job):
    """a DilatedConnectionProtocol fed prologue + three frames chosen by the solver: nothing reaches
    connector/manager unless the frames are exactly the honest peer's handshake/KCM/record under the same psk"""
    functions = ["_dilation.connection.DilatedConnectionProtocol.connectionMade/dataReceived", "_Record.process_handshake",
                 "_Record.decrypt_message", "_Framer.add_and_parse"]
    must_reach = ("nt:accepted-all", "nt:dropped")
    vary_len = True

    def __init__(self, role, samekey, cut):
        self.role, self.samekey, self.cut = role, samekey, cut
        self.name = "unkeyed_%s_%s_%s" % ("leader" if role is LEADER else "follower", "samekey" if samekey else "otherkey", cut)
        self.bounds = dict(frames=3, frame_contents="every byte symbolic (may or may not equal the honest peer's bytes); the 2nd and 3rd frame have the honest "
                           "length, length 0, 1 or one byte short (solver's choice)",
                           peer_key="same" if samekey else "different", chunking="whole" if cut is None else "cut fraction %s" % cut)
        if not samekey:
            self.must_reach = ("nt:dropped",)

    def build(self, w, script_frames=None):
        from harness.c12 import Tr
        me_role = self.role
        peer_role = FOLLOWER if me_role is LEADER else LEADER
        eq = EQ()
        conn = ConnRec()
        n = N.IdealNoise(w)
        n.set_psks(b"K")
        n.set_as_initiator() if me_role is LEADER else n.set_as_responder()
        po, pi = (PRO_L, PRO_F) if me_role is LEADER else (PRO_F, PRO_L)
        p = CX.DilatedConnectionProtocol(eq, me_role, "desc", conn, n, po, pi)
        t = Tr()
        p.makeConnection(t)
        # honest peer (possibly with another key) as a bare _Record
        pn = N.IdealNoise(w)
        pn.set_psks(b"K" if self.samekey else b"X")
        pn.set_as_initiator() if peer_role is LEADER else pn.set_as_responder()
        pt = Tr()
        pf = CX._Framer(pt, pi, po)
        pr = CX._Record(pf, pn, peer_role)
        pr.set_role_leader() if peer_role is LEADER else pr.set_role_follower()
        pr.connectionMade()
        return p, t, conn, eq, pr, pt

    def honest_frames(self, p, t, pr, pt):
        """the honest peer's prologue and handshake frame, produced against the protocol under test.
        A leader under test only sends its handshake after the peer's prologue, so that (honest) prologue is
        delivered first and is not part of the symbolic stream in that case."""
        w0 = xfer(pt)            # peer prologue (written at connectionMade)
        prologue = w0[0]
        if self.role is LEADER:
            p.dataReceived(prologue)
            prologue = b""
        for d in xfer(t):
            try:
                list(pr.add_and_unframe(d))
            except Exception as e:
                core.check_leak(e)
                # a peer holding another key cannot validate our handshake; it answers with its own anyway
                pr._framer._can_send_frames = True
                pr._send_handshake()
        frames = w0[1:] + xfer(pt)
        return prologue, frames

    def scenario(self):
        w = N.World()
        with shadows():
            p, t, conn, eq, pr, pt = self.build(w)
            mgr = MgrRec()
            prologue, frames = self.honest_frames(p, t, pr, pt)
            check(len(frames) == 1, "honest peer did not produce exactly its handshake frame")
            hs_frame = frames[0]
            # what the honest peer would send next: KCM then a Ping - produced from a *copy* of its noise state,
            # which requires it to have seen our handshake when we lead (done above) or nothing when it leads
            pr._framer._can_send_frames = True
            pr.send_record(CX.KCM())
            pr.send_record(CX.Ping(b"\x01\x02\x03\x04"))
            kcm_frame, ping_frame = xfer(pt)
            honest = [hs_frame, kcm_frame, ping_frame]
            xs = []
            for i, hf in enumerate(honest):
                # the LENGTH of the frames after the handshake is the adversary's choice too: the honest one, empty, one byte, one byte short
                hl = len(hf) - 4
                lens = [hl] if i == 0 or not self.vary_len else [hl, 0, 1, hl - 1]
                n = lens[eng().choose(len(lens), "len%d" % i)] if len(lens) > 1 else hl
                x = fresh_bytes("x%d" % i, n)
                eng().inputs["x%d" % i] = x
                xs.append(x)
            stream = SymBytes(list(prologue))
            for hf, x in zip(honest, xs):
                stream = stream + ENC.to_be4(len(x)) + x
            same = [(x == hf[4:]) if len(x) == len(hf) - 4 else SymBool(z3.BoolVal(False)) for hf, x in zip(honest, xs)]
            if self.cut is None:
                chunks = [stream]
            else:
                c = int(len(stream) * self.cut)
                chunks = [stream[:c], stream[c:]]
            for ch in chunks:
                try:
                    p.dataReceived(ch)
                except (core.Escape, core.Inconclusive, core._Abort, core.Counterexample):
                    raise
                except Exception as e:
                    core.check_leak(e)
                    # Twisted's reactor logs an exception escaping dataReceived and drops the connection
                    t.lost += 1
                if t.lost:
                    break
            # the follower role selects via connector.add_candidate too (Connector decides); emulate selection
            if conn.cands:
                check(sym_and(same[0], same[1]) if self.samekey else False, "candidate offered without the honest handshake+KCM under our key")
                p.select(mgr)
            else:
                check(sym_not(sym_and(same[0], same[1])) if self.samekey else True, "honest handshake+KCM was not accepted")
            if mgr.recs:
                check(sym_and(*same) if self.samekey else False, "record reached the manager without being the honest ciphertext")
                check(len(mgr.recs) == 1 and mgr.recs[0] == CX.Ping(b"\x01\x02\x03\x04"), "wrong record delivered")
            if self.samekey:
                all_same = sym_and(*same)
                if t.lost:
                    check(sym_not(all_same), "connection dropped although every frame was honest")
                    eng().note("nt:dropped")
                else:
                    check(all_same, "forged/corrupted frame did not drop the connection")
                    check(len(mgr.recs) == 1, "honest record not delivered")
                    eng().note("nt:accepted-all")
            else:
                check(t.lost >= 1, "connection with a peer holding another key was not dropped")
                check(not conn.cands and not mgr.recs, "something surfaced from a peer holding another key")
                eng().note("nt:dropped")

    def replay(self, inp, label):
        script = {k: v for k, v in inp.items() if k.startswith("ct")}
        w = N.World(script)
        p, t, conn, eq, pr, pt = self.build(w)
        mgr = MgrRec()
        prologue, frames = self.honest_frames(p, t, pr, pt)
        hs_frame = frames[0]
        pr._framer._can_send_frames = True
        pr.send_record(CX.KCM())
        pr.send_record(CX.Ping(b"\x01\x02\x03\x04"))
        kcm_frame, ping_frame = xfer(pt)
        honest = [hs_frame, kcm_frame, ping_frame]
        xs = [inp["x%d" % i] for i in range(3)]
        stream = prologue
        for hf, x in zip(honest, xs):
            stream += ENC.to_be4(len(x)) + x
        same = [x == hf[4:] for hf, x in zip(honest, xs)]
        chunks = [stream] if self.cut is None else [stream[:int(len(stream) * self.cut)], stream[int(len(stream) * self.cut):]]
        for ch in chunks:
            try:
                p.dataReceived(ch)
            except Exception:
                t.lost += 1
            if t.lost:
                break
        if conn.cands:
            if not (self.samekey and same[0] and same[1]):
                return "candidate offered without honest handshake+KCM under our key (same=%r samekey=%r)" % (same, self.samekey)
            p.select(mgr)
        elif self.samekey and same[0] and same[1]:
            return "honest handshake+KCM not accepted"
        if mgr.recs and not (self.samekey and all(same)):
            return "record %r reached the manager from a non-honest stream (same=%r)" % (mgr.recs, same)
        if self.samekey:
            if t.lost and all(same):
                return "dropped although all frames honest"
            if not t.lost and not all(same):
                return "forged/corrupted frame did not drop the connection (same=%r)" % (same,)
            if not t.lost and len(mgr.recs) != 1:
                return "honest record not delivered"
        else:
            if not t.lost:
                return "peer with another key not dropped"
        return None


class SelectOrder(Job):
    """records that arrive behind the KCM - before or after the Connector's select(), in any two-chunk split of the byte stream - reach the
    manager exactly as sent and in order (the queue between KCM and select() is part of the L2 path)"""
    functions = ["_dilation.connection.DilatedConnectionProtocol.dataReceived/got_kcm/select/got_record/queue_inbound_record/process_inbound_queue/deliver_record",
                 "_Record.add_and_unframe", "_Framer.add_and_parse"]
    must_reach = ("nt:in-order",)

    def __init__(self, role):
        self.role = role
        self.samekey, self.cut = True, None
        self.name = "select_order_%s" % ("leader" if role is LEADER else "follower")
        self.bounds = dict(records=4, select_point="after any number of post-KCM records (solver-chosen)", chunking="whole, or split in two at any byte (solver-chosen)")

    build = Unkeyed.build
    honest_frames = Unkeyed.honest_frames
    RECS = None

    def run(self, sel_after, cut):
        recs = [CX.Open(1, 7, "proto"), CX.Data(2, 7, b"payload"), CX.Ping(b"\x01\x02\x03\x04"), CX.Close(3, 7)]
        w = N.World(concrete=True)
        p, t, conn, eq, pr, pt = self.build(w)
        mgr = MgrRec()
        prologue, frames = self.honest_frames(p, t, pr, pt)
        pr._framer._can_send_frames = True
        pr.send_record(CX.KCM())
        head = b"".join(bytes(x) for x in [prologue] + frames + xfer(pt))
        p.dataReceived(head)
        if not conn.cands:
            return "honest handshake+KCM not accepted"
        per = []
        for r in recs:
            pr.send_record(r)
            per.append(b"".join(bytes(x) for x in xfer(pt)))
        # deliver the first sel_after records, select, deliver the rest; the whole post-KCM stream is split once at `cut`
        stream = b"".join(per)
        bound = sum(len(x) for x in per[:sel_after])
        pieces = []
        for lo, hi in ((0, bound), (bound, len(stream))):
            seg = stream[lo:hi]
            if cut is not None and lo < cut < hi:
                pieces.append((lo, [seg[:cut - lo], seg[cut - lo:]]))
            else:
                pieces.append((lo, [seg] if seg else []))
        for ch in pieces[0][1]:
            p.dataReceived(ch)
        p.select(mgr)
        eq.flush_sync()
        for ch in pieces[1][1]:
            p.dataReceived(ch)
        eq.flush_sync()
        if t.lost:
            return "honest stream dropped the connection"
        if mgr.recs != recs:
            return "manager received %r, peer sent %r (select after %d records, cut %r)" % (mgr.recs, recs, sel_after, cut)
        return None

    def scenario(self):
        sel = eng().choose(5, "select_after")
        # total post-KCM stream length is fixed by the records; find it once
        c = eng().choose(2, "split")
        cut = None
        if c:
            cut = 1 + eng().choose(120, "cut")
        eng().inputs.update(select_after=sel, cut=-1 if cut is None else cut)
        with loader.shadow((CX, "log", _Log())):
            v = self.run(sel, cut)
        check(v is None, "records behind the KCM: %s" % v)
        eng().note("nt:in-order")

    def key(self, inp, label):
        return "records behind the KCM not delivered to the manager as sent"

    def replay(self, inp, label):
        return self.run(inp["select_after"], None if inp["cut"] < 0 else inp["cut"])


class _Log:
    def msg(self, *a, **k):
        pass

    def err(self, *a, **k):
        pass


def jobs(tier):
    thorough = tier == "thorough"
    J = [MultiPacket(4 * MAXP + 9)]
    cuts = [None, 0.5] + ([0.3, 0.8, 0.95] if thorough else [])
    for role in (LEADER, FOLLOWER):
        for samekey in (True, False):
            for cut in (cuts if samekey else [None]):
                J.append(Unkeyed(role, samekey, cut))
    J += [SelectOrder(LEADER), SelectOrder(FOLLOWER)]
    return J
