"""C19 (4): only one of allocate_code / set_code / input_code may ever be used (real Boss via wormhole.create)"""
from harness.common import Job, check
from symrun import core
from symrun.core import eng

CALLS = ["allocate_code", "set_code", "input_code"]


class OnlyOne(Job):
    name = "only_one_code_method"
    functions = ["_boss.Boss.allocate_code/set_code/input_code", "wormhole._DelegatedWormhole/_DeferredWormhole pass-throughs"]
    must_reach = ("nt:second-refused",)
    bounds = dict(calls="every ordered pair (incl. the same method twice), before/after connecting, delegated and deferred API")

    def run(self, first, second, connect_first, delegated):
        from env.client import World, Client
        with World() as w:
            c = Client(w, "A", delegated=delegated)
            if connect_first:
                c.open()
                w.settle()
            args = {"allocate_code": (2,), "set_code": ("4-purple-sausages",), "input_code": ()}
            out = []
            for name in (first, second):
                try:
                    getattr(c.w, name)(*args[name])
                    out.append("ok")
                except Exception as e:
                    core.check_leak(e)
                    out.append(type(e).__name__)
            return out

    def scenario(self):
        a = eng().choose(3, "first")
        b = eng().choose(3, "second")
        cf = eng().choose(2, "connected")
        dl = eng().choose(2, "delegated")
        eng().inputs.update(first=a, second=b, connected=cf, delegated=dl)
        out = self.run(CALLS[a], CALLS[b], bool(cf), bool(dl))
        check(out[0] == "ok", "first code method refused")
        check(out[1] == "OnlyOneCodeError", "second code method not refused with OnlyOneCodeError")
        eng().note("nt:second-refused")

    def replay(self, inp, label):
        out = self.run(CALLS[inp["first"]], CALLS[inp["second"]], bool(inp["connected"]), bool(inp["delegated"]))
        if out != ["ok", "OnlyOneCodeError"]:
            return "%s then %s -> %r" % (CALLS[inp["first"]], CALLS[inp["second"]], out)
        return None


def jobs(tier):
    return [OnlyOne()]
