"""C16 - Leader replaces a silent peer connection and never drops a responsive one."""
import sys
from harness import common
from harness.common import Job, check
from symrun import loader
loader.install()
from symrun import core  # noqa: E402
from symrun.core import eng  # noqa: E402
from symrun import values as V  # noqa: E402
from symrun.values import SymReal, SymBool, fresh_real, sym_and, sym_or, sym_not  # noqa: E402
from symrun.clock import SymClock  # noqa: E402
import z3  # noqa: E402

from zope.interface import implementer, directlyProvides  # noqa: E402
from twisted.internet.task import Clock, Cooperator  # noqa: E402
from wormhole import _interfaces  # noqa: E402
from wormhole.eventual import EventualQueue  # noqa: E402
from wormhole._dilation import manager as MGR  # noqa: E402
from wormhole._dilation.connection import Ping, Pong  # noqa: E402
from wormhole._dilation.roles import LEADER, FOLLOWER  # noqa: E402


class Tr:
    def registerProducer(self, p, s):
        pass

    def unregisterProducer(self):
        pass


class FakeConn:
    """stands for the selected DilatedConnectionProtocol"""
    def __init__(self, clock, log):
        self.clock, self.log = clock, log
        self.transport = Tr()
        self._description = "fake"

    def send_record(self, r):
        self.log.append(("send", type(r).__name__, getattr(r, "ping_id", None), self.clock.seconds()))

    def disconnect(self):
        self.log.append(("disconnect", self.clock.seconds(), id(self)))

    def pauseProducing(self):
        pass

    def resumeProducing(self):
        pass


class FakeConnector:
    def __init__(self, *a, **kw):
        pass

    def start(self):
        pass

    def stop(self):
        pass


class Sender:
    def send(self, phase, pt):
        pass

    def got_verified_key(self, k):
        pass


class FakeOS:
    def __init__(self):
        self.n = 0

    def urandom(self, k):
        self.n += 1
        return self.n.to_bytes(k, "big")


def build(clock, interval, leader=True):
    eq_clock = Clock()
    eq = EventualQueue(eq_clock)
    s = Sender()
    directlyProvides(s, _interfaces.ISend)
    m = MGR.Manager(s, "bb" * 8 if leader else "11" * 8, None, clock, eq, Cooperator(scheduler=eq.eventually), ["ged"], 30.0, None, True, None, None)
    m._ping_interval = interval
    m.got_dilation_key(b"k")
    m.got_wormhole_versions({"can-dilate": ["ged"]})
    m.rx_PLEASE({"side": "55" * 8})
    assert m._my_role is (LEADER if leader else FOLLOWER)
    return m


class Monitor(Job):
    functions = ["_dilation.manager.TrafficTimer (table + outputs)", "Manager._send_ping_reset_timer/_signal_reconnect/send_ping/handle_pong/got_record",
                 "Manager.connector_connection_made/connector_connection_lost/_stop_using_connection", "Manager table rows CONNECTED/FLUSHING/stop"]
    shadows = ["manager.os.urandom (distinct ping ids)", "manager.Connector (inert)", "reactor = symbolic clock (symrun/clock.py): instants are z3 Reals"]

    def __init__(self, mode, nev):
        self.mode, self.nev = mode, nev
        self.name = "monitor_%s_%d" % (mode, nev)
        self.bounds = dict(mode=mode, events=nev, ping_interval="any real > 0",
                           pong_latency="any real >= 0 per ping (responsive: < interval; silent-after-j: none after a solver-chosen ping; free: any or never)")
        self.must_reach = {"responsive": ("nt:never-dropped",), "silent": ("nt:dropped",), "free": ("nt:dropped", "nt:never-dropped"),
                           "loss": ("nt:lost-quiet",), "follower": ("nt:follower-no-ping",), "backpressure": ("nt:never-dropped",)}[mode]

    def scenario(self):
        I = fresh_real("interval", 0, lo_strict=True)
        eng().inputs["interval"] = I
        clock = SymClock()
        log = []
        with loader.shadow((MGR, "os", FakeOS()), (MGR, "Connector", FakeConnector), (MGR, "isinstance", V.sym_isinstance)):
            m = build(clock, I, leader=(self.mode != "follower"))
            c = FakeConn(clock, log)
            t_conn = clock.seconds()
            m.connector_connection_made(c)
            pongs = []          # (arrival time, ping_id), pending
            answered = []       # (ping send time, pong arrival time)
            decided = set()
            silent_from = None
            if self.mode == "silent":
                silent_from = eng().choose(3, "silent_from_ping")      # pings with index >= this are never answered
                eng().inputs["silent_from_ping"] = silent_from
            lat = {}
            lost_at = None
            pings_seen = 0
            bp = []
            tpaused = False
            if self.mode == "backpressure":
                eng().inputs["bp"] = bp
            for step in range(self.nev):
                if self.mode == "backpressure":
                    # the connection's transport applies / releases back-pressure on Outbound (its registered producer) at any time
                    ch = eng().choose(2, "bp%d" % step)
                    bp.append(ch)
                    if ch:
                        if tpaused:
                            m._outbound.resumeProducing()
                        else:
                            m._outbound.pauseProducing()
                        tpaused = not tpaused
                # decide the fate of newly sent pings
                sends = [e for e in log if e[0] == "send" and e[1] == "Ping"]
                for k, e in enumerate(sends):
                    if e[2] in decided:
                        continue
                    decided.add(e[2])
                    if self.mode in ("responsive", "loss", "follower", "backpressure"):
                        d = fresh_real("latency%d" % k, 0)
                        eng().assume((d < I).t)
                    elif self.mode == "silent":
                        if k >= silent_from:
                            continue
                        d = fresh_real("latency%d" % k, 0)
                        eng().assume((d < I).t)
                    else:
                        if eng().choose(2, "answered%d" % k) == 0:
                            continue
                        d = fresh_real("latency%d" % k, 0)
                    lat[k] = d
                    eng().inputs["latency%d" % k] = d
                    pongs.append((e[3] + d, e[2], e[3]))
                if any(e[0] == "disconnect" for e in log):
                    break
                timers = clock.getDelayedCalls()
                cands = [("timer", dc.when, dc) for dc in timers] + [("pong", p[0], p) for p in pongs]
                if self.mode == "loss" and lost_at is None and step >= 1:
                    cands.append(("loss", clock.seconds(), None))
                if not cands:
                    break
                i = clock.earliest([x[1] for x in cands])
                kind, when, obj = cands[i]
                if kind == "timer":
                    clock.fire(obj)
                elif kind == "pong":
                    clock.advance_to(when)
                    pongs.remove(obj)
                    answered.append((obj[2], when))
                    m.got_record(Pong(obj[1]))
                else:
                    lost_at = clock.seconds()
                    m.connector_connection_lost()
                    check(m._timer is None and not clock.getDelayedCalls(), "a timer stays active after the connection was lost")
                    nping = len([e for e in log if e[0] == "send" and e[1] == "Ping"])
                    # time passes: nothing may happen
                    clock.advance_to(clock.seconds() + I * 5)
                    check(len([e for e in log if e[0] == "send" and e[1] == "Ping"]) == nping, "ping sent without a connection")
                    check(m._my_role is LEADER and MGR.Manager.m is not None, "x")
                    # FLUSHING -> peer says reconnecting -> CONNECTING -> new connection: monitoring resumes
                    try:
                        m.rx_RECONNECTING()
                        c2 = FakeConn(clock, log)
                        m.connector_connection_made(c2)
                    except (core.Escape, core.Inconclusive, core._Abort, core.Counterexample):
                        raise
                    except Exception as e:
                        core.check_leak(e)
                        check(False, "monitoring did not resume on the next connection: %s raised" % type(e).__name__)
                        return
                    check(m._timer is not None and m._timer.active(), "monitoring did not resume on the next connection")
                    # the replacement connection is silent from the start: the monitor drops IT (not some earlier connection) within three intervals
                    t2 = clock.seconds()
                    for _ in range(4):
                        dcs = clock.getDelayedCalls()
                        if not dcs or any(e[0] == "disconnect" and len(e) > 2 and e[2] == id(c2) for e in log):
                            break
                        clock.fire(dcs[clock.earliest([dc.when for dc in dcs])])
                    d2 = [e for e in log if e[0] == "disconnect" and len(e) > 2 and e[2] == id(c2)]
                    check(bool(d2), "a silent replacement connection was not dropped by the monitor")
                    if d2:
                        check(d2[0][1] < t2 + I * 3, "a silent replacement connection was kept for three ping intervals or more")
                    eng().note("nt:lost-quiet")
                    return
            disc = [e for e in log if e[0] == "disconnect"]
            sends = [e for e in log if e[0] == "send" and e[1] == "Ping"]
            if self.mode == "follower":
                check(not sends, "a follower sent pings")
                check(not disc, "a follower's monitor dropped the connection")
                eng().note("nt:follower-no-ping")
                return
            if disc:
                # the transport reports the loss after the monitor's disconnect(): cleanup must complete, a new generation must start,
                # and monitoring must resume on the next connection
                try:
                    m.connector_connection_lost()
                except (core.Escape, core.Inconclusive, core._Abort, core.Counterexample):
                    raise
                except Exception as e:
                    check(False, "connection-lost handling after a monitor-initiated drop raised %s" % type(e).__name__)
                    return
                st = getattr(m, type(m).m._symbol)._state.method.__name__
                check(st == "FLUSHING", "no new generation after the monitor dropped the connection (state %s)" % st)
                check(m._timer is None and not clock.getDelayedCalls(), "a timer stays active after the dropped connection was lost")
                m.rx_RECONNECTING()
                m.connector_connection_made(FakeConn(clock, log))
                check(m._timer is not None and m._timer.active(), "monitoring did not resume after a monitor-initiated reconnect")
                D = disc[0][1]
                # reference point: send time of the last ping whose pong was delivered before D (or connection time)
                ref = t_conn
                for (ts, ta) in answered:
                    ref = ts            # answered in send order (FIFO link): last one wins
                check(D <= ref + I * 2, "silent connection dropped later than the second timer expiry after the last answered ping")
                check(D < ref + I * 3, "silent connection kept for three ping intervals or more")
                if self.mode in ("responsive", "loss", "backpressure"):
                    check(False, "a connection whose peer answered every ping within one interval was dropped")
                check(m._connection is None or True, "x")
                eng().note("nt:dropped")
            else:
                if self.mode in ("responsive", "loss", "backpressure"):
                    check(len(sends) >= 2, "the monitor stopped pinging a live connection")
                if self.mode == "silent":
                    # enough events were allowed for the monitor to act: silence began at ping `silent_from`
                    if len(sends) > silent_from + 1 or (silent_from == 0 and len(sends) >= 2):
                        check(False, "silent connection was not dropped although two more intervals expired")
                eng().note("nt:never-dropped")

    def replay(self, inp, label):
        """re-run concretely on a twisted Clock with the model's interval and latencies"""
        I = inp["interval"]
        clock = Clock()
        log = []
        real_os = MGR.os
        real_connector = MGR.Connector
        MGR.os = FakeOS()
        MGR.Connector = FakeConnector
        try:
            m = build(clock, I, leader=(self.mode != "follower"))
            c = FakeConn(clock, log)
            m.connector_connection_made(c)
            decided = set()
            pongs = []
            answered = []
            tpaused = False
            for step in range(self.nev):
                if self.mode == "backpressure" and step < len(inp.get("bp", [])) and inp["bp"][step]:
                    if tpaused:
                        m._outbound.resumeProducing()
                    else:
                        m._outbound.pauseProducing()
                    tpaused = not tpaused
                sends = [e for e in log if e[0] == "send" and e[1] == "Ping"]
                for k, e in enumerate(sends):
                    if e[2] in decided:
                        continue
                    decided.add(e[2])
                    if "latency%d" % k in inp:
                        pongs.append((e[3] + inp["latency%d" % k], e[2], e[3]))
                if any(e[0] == "disconnect" for e in log):
                    break
                dcs = clock.getDelayedCalls()
                if self.mode == "loss" and step == 1:
                    m.connector_connection_lost()
                    if m._timer is not None or clock.getDelayedCalls():
                        return "interval %r: a timer is still active after the connection was lost" % (I,)
                    npings = len([e for e in log if e[0] == "send" and e[1] == "Ping"])
                    clock.advance(5 * I)
                    if len([e for e in log if e[0] == "send" and e[1] == "Ping"]) != npings:
                        return "interval %r: ping sent without a connection" % (I,)
                    try:
                        m.rx_RECONNECTING()
                        m.connector_connection_made(FakeConn(clock, log))
                    except Exception as e:
                        return "interval %r: monitoring did not resume on the next connection: %r raised" % (I, e)
                    if m._timer is None or not m._timer.active():
                        return "interval %r: monitoring did not resume on the next connection" % (I,)
                    c2 = [e for e in [None]]
                    conn2 = m._connection
                    t2 = clock.seconds()
                    for _ in range(4):
                        dcs = clock.getDelayedCalls()
                        if not dcs or any(e[0] == "disconnect" and len(e) > 2 and e[2] == id(conn2) for e in log):
                            break
                        nxt = min(dc.getTime() for dc in dcs)
                        clock.advance(max(0, nxt - clock.seconds()))
                    d2 = [e for e in log if e[0] == "disconnect" and len(e) > 2 and e[2] == id(conn2)]
                    if not d2:
                        return "interval %r: the silent replacement connection was never dropped (disconnects: %r)" % (I, [e[:2] for e in log if e[0] == "disconnect"])
                    if d2[0][1] >= t2 + 3 * I:
                        return "interval %r: the silent replacement connection was kept until %r" % (I, d2[0][1])
                    return None
                cands = [("timer", dc.getTime(), dc) for dc in dcs] + [("pong", p[0], p) for p in pongs]
                if not cands:
                    break
                cands.sort(key=lambda x: x[1])
                kind, when, obj = cands[0]
                clock.advance(max(0, when - clock.seconds()))
                if kind == "pong":
                    pongs.remove(obj)
                    answered.append((obj[2], when))
                    m.got_record(Pong(obj[1]))
            disc = [e for e in log if e[0] == "disconnect"]
            sends = [e for e in log if e[0] == "send" and e[1] == "Ping"]
            if self.mode == "follower":
                return "follower sent pings / dropped" if (sends or disc) else None
            if disc:
                try:
                    m.connector_connection_lost()
                except Exception as e:
                    return "interval %r: connection-lost handling after the monitor dropped a silent connection raised %r" % (I, e)
                st = getattr(m, type(m).m._symbol)._state.method.__name__
                if st != "FLUSHING" or m._timer is not None:
                    return "interval %r: after the monitor-initiated drop the manager is %s, timer %r" % (I, st, m._timer)
                m.rx_RECONNECTING()
                m.connector_connection_made(FakeConn(clock, log))
                if m._timer is None or not m._timer.active():
                    return "interval %r: monitoring did not resume after a monitor-initiated reconnect" % (I,)
                D = disc[0][1]
                ref = answered[-1][0] if answered else 0.0
                if self.mode in ("responsive", "loss", "backpressure"):
                    return "interval %r, every pong within one interval (%r): dropped at %r" % (I, {k: v for k, v in inp.items() if k.startswith("lat")}, D)
                if D > ref + 2 * I + 1e-9 or D >= ref + 3 * I:
                    return "interval %r: last answered ping sent at %r, dropped only at %r" % (I, ref, D)
            elif self.mode == "silent":
                sf = inp.get("silent_from_ping", 0)
                if len(sends) > sf + 1:
                    return "interval %r: silent from ping %d on, %d pings sent, never dropped" % (I, sf, len(sends))
            return None
        finally:
            MGR.os = real_os
            MGR.Connector = real_connector


# ---------------------------------------------------------------------- the monitor on the real connection stack
from harness.dsim import DExplore, make_jobs as make_djobs  # noqa: E402


class MonitorNet(DExplore):
    """two real dilation stacks (Manager + Connector + DilatedConnectionProtocol over the in-memory network, concrete clock): any link may die at
    any moment, then more than three ping intervals pass.  The Leader must not be left holding a connection that is gone (a dead link is a silent
    peer): by then it has dropped it and started a new generation, and nothing failed internally."""
    configs = {"net-any-loss": dict(app=False, lose_any=True),
               # the link goes silent, the Leader's monitor hangs up, a new generation converges - and the transport of the OLD connection may report
               # its loss at any later moment (a peer that stopped answering does not acknowledge the FIN either)
               # only the Follower's end of the link in use learns of its loss; the Leader (side A here) has a busy application that keeps writing
               "net-half-open-busy-writer": dict(app=True, half_open=True, sides=("cc" * 8, "11" * 8)),
               "net-silent-late-loss-report": dict(app=False, silent_after_connect=True, late_loss_report=True)}

    def __init__(self, cfg, plo, phi, k):
        DExplore.__init__(self, cfg, plo, phi, k)
        self.name = "monitor_net_%s_p%d-%d_k%d" % (cfg, plo, phi, k)

    def final_phase(self, sim):
        if getattr(sim, "_intervals_passed", False):
            return False
        sim._intervals_passed = True
        for _ in range(8):
            if sim.half_open:
                # a busy application on the Leader's side: it writes to its subchannel before every timer expiry (its own traffic says nothing
                # about whether the peer is alive)
                p = sim.protos.get("p0")
                if p is not None and getattr(p, "transport", None) is not None and "p0" not in sim.closed:
                    sim.w.sides[0].call("write", p.transport.write, b"tick")
            if sim.half_open:
                # ... and it writes more often than once per ping interval: 20 s pass between two writes (ping interval 30 s), 160 s in all
                sim.w.reactor.advance(20.0)
                sim.w.turn()
                continue
            if not sim.w.fire_timer():
                break
            sim.w.settle()
        if sim.half_open:
            sim.w.settle()
        return True

    def violations(self, sim, when):
        out = []
        w = sim.w
        for s_ in w.sides:
            for e in s_.errors:
                out.append(("internal failure", "%s: %s %s: %s" % (s_.name, e[0], e[1], e[2])))
        for l in w.logged:
            out.append(("error logged", l))
        # "a connection whose peer answers every ping within one interval is never dropped": every new generation the Leader starts has a cause -
        # the network killed a link, or the connection in use had been quiet for at least one ping interval when the Leader hung up on it
        for i, s_ in enumerate(w.sides):
            if getattr(s_.m, "_my_role", None) is LEADER and not any(sim.stopped_req):
                ping = s_.m._ping_interval if hasattr(s_.m, "_ping_interval") else 30.0
                justified = sum(1 for d in w.net.inuse_drops if d["manager"] is s_.m and d["quiet"] >= ping)
                unjust = [d for d in w.net.inuse_drops if d["manager"] is s_.m and d["quiet"] < ping]
                for d in unjust:
                    out.append(("the Leader hung up on a connection that had been quiet for less than one ping interval", "link %d quiet for %.1fs" % (d["link"], d["quiet"])))
                nrec = s_.sender.types.count("reconnect")
                causes = getattr(sim, "cause_losses", 0) + justified
                if nrec > causes:
                    out.append(("the Leader started a new generation without a cause (no link was lost, no connection went quiet)",
                                "%d reconnect message(s), %d lost link(s), %d justified monitor drop(s)" % (nrec, getattr(sim, "cause_losses", 0), justified)))
        if when == "settled" and getattr(sim, "_intervals_passed", False) and not any(sim.stopped_req):
            for i, s_ in enumerate(w.sides):
                if s_.m._my_role is LEADER and s_.m._connection is not None:
                    live = [p for (pipe, p) in w.selected(i) if not pipe.peer.lost]      # (a half-open link is gone, too)
                    if s_.m._connection not in live:
                        out.append(("the Leader still holds a connection that is gone although several ping intervals have passed", "%s is %s" % (s_.name, s_.state())))
        return out


def jobs(tier):
    thorough = tier == "thorough"
    n = 16 if thorough else 10
    return [Monitor("responsive", n), Monitor("silent", n), Monitor("free", n - 1), Monitor("loss", n - 2), Monitor("follower", 4), Monitor("backpressure", 12 if thorough else 8)] + make_djobs(MonitorNet, tier, 2, 3)


ASSUMPTIONS = [
    "the reactor is replaced by a symbolic clock: callLater deadlines are now+delay as z3 Reals, the next event is the earliest one (ties forked), time never goes backwards",
    "the link delivers pongs in the order the pings were sent; a pong for ping k arrives latency_k >= 0 after the ping (or never)",
    "Connector replaced by an inert stub; the selected connection by a recorder (send_record/disconnect with timestamps)",
    "bounded: the first 10 (quick) / 16 (thorough) timer/pong events after the connection is made; one loss+reconnect in the loss mode",
    "the ping sent at connection time is issued before the connection is installed and is therefore not transmitted (observed behaviour, harmless): the first transmitted ping is one interval later",
]

if __name__ == "__main__":
    sys.exit(common.main("C16", "harness.c16", level="other", extra_assumptions=ASSUMPTIONS,
                         trusted_base=["symrun/clock.py symbolic clock"],
                         explanation="symbolic-time execution (symrun + z3 over Reals) of the real TrafficTimer and the Manager's ping/pong/timer code: for every ping interval and "
                                     "every pong latency, a responsive peer is never dropped, a silent one is dropped by the second expiry after the last answered ping "
                                     "(< 3 intervals), no timer or ping after loss, monitoring resumes on the next connection, followers do not ping"))
