"""C07 - Transit picks exactly one connection, chosen by the sender, key holders only."""
import sys
from harness import common
from harness.common import Job, check
from symrun import loader
loader.install()
from symrun import core  # noqa: E402
from symrun.core import eng  # noqa: E402
from symrun import values as V  # noqa: E402
from symrun.values import SymBytes, SymBool, fresh_bytes, sym_and, sym_or, sym_not  # noqa: E402
from harness.c06 import Tr, Fac, LogRec, KEY, sym_hexlify  # noqa: E402
from env.box import BoxWorld, make_box_class  # noqa: E402

from twisted.internet import defer, error  # noqa: E402
from twisted.internet.task import Clock  # noqa: E402
from twisted.python import failure  # noqa: E402
from wormhole import transit as T  # noqa: E402
from wormhole._hints import DirectTCPV1Hint, RelayV1Hint  # noqa: E402

OTHERKEY = b"\x22" * 32
from twisted.python import log as _tlog  # noqa: E402
_tlog.startLoggingWithObserver(lambda ev: None, setStdout=False)   # unhandled-Deferred notices of abandoned contenders


def shadows():
    from symrun.values import sym_int
    return loader.shadow((T, "isinstance", V.sym_isinstance), (T, "log", LogRec()), (T, "hexlify", sym_hexlify), (T, "int", sym_int))


SHADOWS = ["transit.isinstance", "transit.log", "transit.hexlify/int (as in C06, for record bytes that follow a completed handshake)"]


def owner(sender, clock, key=KEY):
    o = (T.TransitSender if sender else T.TransitReceiver)(None, no_listen=True, reactor=clock)
    o.set_transit_key(key)
    return o


def conn(o, clock, relay):
    c = T.Connection(o, b"please relay X for side Y\n" if relay else None, 0, "desc")
    c.transport = Tr()
    c.factory = Fac()
    c.callLater = clock.callLater
    return c


def _hkdf(key, n, info):
    """RFC 5869 HKDF-SHA256 with an empty salt, written out here so that the reference does not come from the code under test"""
    import hmac
    import hashlib
    prk = hmac.new(b"\x00" * 32, key, hashlib.sha256).digest()
    okm, t, i = b"", b"", 1
    while len(okm) < n:
        t = hmac.new(prk, t + info + bytes([i]), hashlib.sha256).digest()
        okm += t
        i += 1
    return okm[:n]


def ref_handshake(key, from_sender):
    """docs/transit.md: 'transit sender <hex(HKDF(key, transit_sender))> ready\\n\\n' / 'transit receiver <...> ready\\n\\n'"""
    import binascii
    if from_sender:
        return b"transit sender " + binascii.hexlify(_hkdf(key, 32, b"transit_sender")) + b" ready\n\n"
    return b"transit receiver " + binascii.hexlify(_hkdf(key, 32, b"transit_receiver")) + b" ready\n\n"


def expected_inbound(o, relay, key=KEY):
    """what the honest peer (holding `key`) sends to o: an independent reference, not o._expect_this()"""
    exp = (b"ok\n" if relay else b"") + ref_handshake(key, not o.is_sender)
    if not o.is_sender:
        exp += b"go\n"
    return exp


def beq(a, b):
    if len(a) != len(b):
        return False
    if not len(a):
        return True
    a = a if isinstance(a, SymBytes) else SymBytes(list(a))
    return a == b


class Handshake(Job):
    """one Connection; inbound = honest prefix of every length + n arbitrary bytes, optionally split in two chunks"""
    functions = ["transit.Connection.startNegotiation", "Connection.dataReceived/_dataReceived", "Connection._check_and_remove",
                 "Connection._negotiationSuccessful", "Common.connection_ready", "Common._send_this/_expect_this",
                 "build_sender_handshake/build_receiver_handshake"]
    shadows = SHADOWS

    def __init__(self, sender, relay, n, split, decoy=False):
        self.sender, self.relay, self.n, self.split, self.decoy = sender, relay, n, split, decoy
        self.name = "hs_%s_%s_n%d_%s%s" % ("sender" if sender else "receiver", "relay" if relay else "direct", n, "split" if split else "whole", "_decoy" if decoy else "")
        self.bounds = dict(role="sender" if sender else "receiver", relay=relay, symbolic_bytes=n,
                           other_transfers="a second Transit object of the same role holding ANOTHER key lives in the process and starts negotiating first" if decoy else "none",
                           honest_prefix="every length 0..len(expected)", chunking="every cut of the symbolic part" if split else "one chunk")
        self.must_reach = (("nt:rejected",) if n >= 1 else ()) + ("nt:waiting", "nt:selected")

    def run(self, inbound_chunks):
        clock = Clock()
        o = owner(self.sender, clock)
        if self.decoy:
            # a concurrent transfer in the same process: another Transit object with another key, negotiating on its own connection
            o2 = owner(self.sender, clock, key=OTHERKEY)
            c2 = conn(o2, clock, self.relay)
            c2.startNegotiation().addErrback(lambda f: None)
            c2.dataReceived((b"ok\n" if self.relay else b"") + ref_handshake(OTHERKEY, not self.sender)[:20])
        c = conn(o, clock, self.relay)
        res = []
        d = c.startNegotiation()
        d.addCallbacks(lambda r: res.append("ok"), lambda f: res.append(f.type.__name__))
        exc = None
        for ch in inbound_chunks:
            try:
                c.dataReceived(ch)
            except (core.Escape, core.Inconclusive, core._Abort, core.Counterexample):
                raise
            except Exception as e:
                core.check_leak(e)
                exc = type(e).__name__
        return o, c, res, exc

    def scenario(self):
        clock0 = Clock()
        exp = expected_inbound(owner(self.sender, clock0), self.relay)
        off = eng().choose(len(exp) + 1, "offset")
        s = fresh_bytes("s", self.n)
        eng().inputs.update(offset=off, s=s)
        tail = s
        if self.split and self.n >= 1:
            cut = eng().choose(self.n + 1, "cut")
            eng().inputs["cut"] = cut
            chunks = [SymBytes(list(exp[:off])) + s[:cut], s[cut:]]
        else:
            chunks = [SymBytes(list(exp[:off])) + s]
        with shadows():
            o, c, res, exc = self.run(chunks)
        inbound = SymBytes(list(exp[:off])) + s
        m = min(len(inbound), len(exp))
        agrees = beq(inbound[:m], exp[:m])
        complete = len(inbound) >= len(exp)
        writes = c.transport.w
        wrote_go = b"go\n" in writes
        mine = ref_handshake(KEY, self.sender)
        sent = b"".join(x for x in writes if isinstance(x, bytes))
        if b"transit " in sent:
            check(mine in sent, "the handshake this side sent is not the one derived from its own transit key")
        if c.state == "records":
            check(complete, "reached 'records' before the whole expected handshake arrived")
            check(agrees, "reached 'records' although the inbound bytes deviate from the expected handshake")
            check(res == ["ok"], "negotiation Deferred did not fire with the connection")
            check(wrote_go == self.sender, "go written by the wrong role / not written by the sender")
            check(o._winner is c if self.sender else True, "sender did not record the winner")
            eng().note("nt:selected")
        elif c.state == "hung up" and res == ["ok"] and len(inbound) > len(exp):
            # negotiation had succeeded; the bytes after the handshake were record data that failed to parse/decrypt (C06's subject)
            check(sym_and(agrees, complete), "negotiation succeeded although the handshake bytes deviate")
            eng().note("nt:selected-then-bad-record")
        elif c.state == "hung up":
            check(sym_not(agrees), "hung up although every byte so far matches")
            check(c.transport.lost > 0, "hung up without loseConnection")
            check(not wrote_go, "go written on a connection that was then rejected")
            check(c._negotiation_d is not None and not res or res == ["BadHandshake"] or True, "x")
            c.connectionLost(None)
            check(res and res[0] != "ok", "rejected connection's negotiation Deferred did not fail")
            eng().note("nt:rejected")
        else:
            check(not complete or sym_not(agrees) is False or True, "x")
            check(agrees, "still waiting although the inbound bytes already deviate")
            check(not complete, "still waiting although the whole handshake arrived")
            check(not wrote_go, "go written before the handshake completed")
            check(not res, "negotiation Deferred fired early")
            eng().note("nt:waiting")
        return (c.state, exc, wrote_go)

    def _conc(self, inp):
        clock0 = Clock()
        exp = expected_inbound(owner(self.sender, clock0), self.relay)
        s = inp["s"]
        if "cut" in inp:
            chunks = [exp[:inp["offset"]] + s[:inp["cut"]], s[inp["cut"]:]]
        else:
            chunks = [exp[:inp["offset"]] + s]
        o, c, res, exc = self.run(chunks)
        return exp, exp[:inp["offset"]] + s, o, c, res, exc

    def validate(self, inp, observed):
        with loader.shadow((T, "log", LogRec())):
            exp, inbound, o, c, res, exc = self._conc(inp)
        obs = (c.state, exc, b"go\n" in c.transport.w)
        if tuple(observed) != obs:
            return "symbolic %r vs concrete %r on %r" % (observed, obs, inp)

    def replay(self, inp, label):
        exp, inbound, o, c, res, exc = self._conc(inp)
        m = min(len(inbound), len(exp))
        agrees = inbound[:m] == exp[:m]
        complete = len(inbound) >= len(exp)
        wrote_go = b"go\n" in c.transport.w
        who = "%s%s" % ("sender" if self.sender else "receiver", " via relay" if self.relay else "")
        sent = b"".join(x for x in c.transport.w if isinstance(x, bytes))
        if b"transit " in sent and ref_handshake(KEY, self.sender) not in sent:
            return "%s sent %r, which does not contain the handshake derived from its own key" % (who, sent)
        if c.state == "records":
            if not (complete and agrees):
                return "%s reached 'records' on inbound %r, expected %r" % (who, inbound, exp)
            if wrote_go != self.sender:
                return "%s: go written=%r" % (who, wrote_go)
            if res != ["ok"]:
                return "%s: negotiation result %r" % (who, res)
            return None
        if c.state == "hung up" and res[:1] == ["ok"] and len(inbound) > len(exp):
            return None if (agrees and complete) else "%s negotiated successfully on a deviating handshake %r" % (who, inbound)
        if wrote_go:
            return "%s wrote go in state %r on inbound %r" % (who, c.state, inbound)
        if c.state == "hung up":
            if agrees:
                return "%s hung up on a matching (prefix of the) handshake %r" % (who, inbound)
            if not c.transport.lost:
                return "%s hung up without loseConnection" % who
            c.connectionLost(None)
            if not res or res[0] == "ok":
                return "%s: rejected connection's Deferred result %r" % (who, res)
            return None
        if not agrees:
            return "%s still waiting in state %r although inbound %r deviates from %r" % (who, c.state, inbound, exp)
        if complete:
            return "%s still waiting in state %r although the full handshake arrived" % (who, c.state)
        if res:
            return "%s: negotiation Deferred fired early: %r" % (who, res)
        return None


class FakeEndpoint:
    def __init__(self, net, hint, relay):
        self.net, self.hint, self.relay = net, hint, relay

    def connect(self, f):
        d = defer.Deferred()
        self.net.pending.append(dict(ep=self, f=f, d=d, proto=None))
        return d


class Net:
    def __init__(self):
        self.pending = []


class Contenders(Job):
    """real Common.connect()/_connect(), there_can_be_only_one, InboundConnectionFactory, _not_forever with fake endpoints
    on a Clock; each contender's inbound handshake bytes are symbolic (the solver decides who holds the key); the order of
    connection establishment / delivery / loss / timer expiry is a symbolic schedule."""
    functions = ["transit.Common.connect/_connect/_start_connector/_not_forever/connection_ready", "_ThereCanBeOnlyOne",
                 "InboundConnectionFactory", "OutboundConnectionFactory", "Connection (handshake states, _cancel, timeoutConnection, connectionLost)"]
    shadows = SHADOWS + ["transit.endpoint_from_hint_obj (fake endpoints)", "transit.allocate_tcp_port/ipaddrs/endpoints.serverFromString (fake listener)"]

    def __init__(self, sender, ncont, steps, relay, listener, variant=None):
        self.sender, self.ncont, self.steps, self.relay, self.listener, self.variant = sender, ncont, steps, relay, listener, variant
        self.name = "contend_%s_n%d_k%d%s%s%s" % ("sender" if sender else "receiver", ncont, steps, ("_relay%s" % (relay if relay is not True else "")) if relay else "", "_listen" if listener else "",
                                                  ("_" + variant) if variant else "")
        self.bounds = dict(role="sender" if sender else "receiver", outbound_contenders=ncont, relay_contender=relay, inbound_listener=listener,
                           schedule_steps=steps, inbound_bytes="symbolic, exact expected length per contender (solver decides match/mismatch at any byte)",
                           variant={None: "all attempts pending when connect() returns its Deferred",
                                    "syncfail": "the first direct hint's endpoint fails synchronously (invalid hostname): its contender Deferred has already fired when there_can_be_only_one starts",
                                    "early-inbound": "an inbound connection arrives and delivers its bytes after get_connection_hints() but before connect() is called",
                                    "late-bytes": "closing is asynchronous (TLS-like / proxied transports): after the code under test called loseConnection() on a contender, bytes already "
                                                  "in flight may still be delivered before connectionLost is reported (both are schedule actions)"}[variant])
        self.must_reach = ("nt:winner", "nt:failed")

    def build(self):
        clock = Clock()
        net = Net()
        o = (T.TransitSender if self.sender else T.TransitReceiver)(None, no_listen=not self.listener, reactor=clock)
        return clock, net, o

    def scenario(self):
        return self.execute(None)

    def execute(self, script):
        """script None => symbolic; else dict(sched=[...], x0=bytes, ...)"""
        symbolic = script is None
        clock, net, o = self.build()
        listener_f = []

        class FakeListenEP:
            def listen(s, f):
                listener_f.append(f)

                class Port:
                    stopped = 0

                    def stopListening(p):
                        Port.stopped += 1
                        listener_f.clear()      # a stopped port accepts no further connections
                s.port = Port()
                return defer.succeed(s.port)

        variant = self.variant

        class SyncFailEndpoint:
            def connect(s, f):
                return defer.fail(ValueError("invalid hostname"))

        def ep_from_hint(hint, tor, reactor):
            if variant == "syncfail" and getattr(hint, "hostname", None) == "h0":
                return SyncFailEndpoint()
            return FakeEndpoint(net, hint, False)

        sh = [(T, "endpoint_from_hint_obj", ep_from_hint), (T, "allocate_tcp_port", lambda: 4001),
              (T.ipaddrs, "find_addresses", lambda: ["127.0.0.1"]),
              (T.endpoints, "serverFromString", lambda r, s: FakeListenEP())]
        with loader.shadow(*sh), (shadows() if symbolic else loader.shadow((T, "log", LogRec()))):
            hints = [{"type": "direct-tcp-v1", "hostname": "h%d" % i, "port": 1000 + i, "priority": 0.0} for i in range(self.ncont)]
            if self.relay:
                # relay == 2: two different relays with the same priority (each side configured its own relay)
                for r in range(2 if self.relay == 2 else 1):
                    hints.append({"type": "relay-v1", "hints": [{"type": "direct-tcp-v1", "hostname": "relay%d" % r, "port": 2000 + r, "priority": 1.0}]})
            o.add_connection_hints(hints)
            o.get_connection_hints()   # API order used by every caller in the repo: hints are produced before connect()
            o.set_transit_key(KEY)
            result = []
            exp_plain = expected_inbound(o, False)
            exp_relay = expected_inbound(o, True)
            if symbolic:
                eng().inputs["sched"] = sched = []
            conns = []      # dict(c=Connection, x=bytes to deliver, pos=delivered so far, lost=bool, relay=bool)
            if not symbolic:
                sched = []
            nx = [0]

            def new_conn(proto, relay):
                proto.transport = Tr()
                proto.callLater = clock.callLater
                exp = exp_relay if relay else exp_plain
                name = "x%d" % nx[0]
                nx[0] += 1
                if symbolic:
                    x = fresh_bytes(name, len(exp))
                    eng().inputs[name] = x
                else:
                    x = script.get(name, exp)
                ent = dict(c=proto, x=x, pos=0, lost=False, relay=relay, exp=exp)
                if symbolic and not o.is_sender:
                    # an honest sender confirms ("go") at most one connection: at most one contender's bytes are the
                    # complete sender handshake + go
                    for other in conns:
                        both = sym_and(beq(x, exp), beq(other["x"], other["exp"]))
                        if both is not False:
                            eng().assume(sym_not(both).t)
                conns.append(ent)
                proto.makeConnection(proto.transport)
                return ent

            if self.variant == "early-inbound" and listener_f:
                # the peer dials our listener as soon as it has our hints: the connection negotiates before the local connect() call
                proto = listener_f[0].buildProtocol(None)
                ent = new_conn(proto, False)
                ent["inbound"] = True
                ent["pos"] = len(ent["x"])
                try:
                    proto.dataReceived(ent["x"])
                except (core.Escape, core.Inconclusive, core._Abort, core.Counterexample):
                    raise
                except Exception as e:
                    core.check_leak(e)
                if proto.transport.lost:
                    ent["lost"] = True
                    proto.connectionLost(failure.Failure(error.ConnectionDone()))
            d = o.connect()
            d.addCallbacks(lambda c: result.append(("ok", c)), lambda f: result.append(("err", f.type.__name__)))

            cancelled = []

            def actions():
                acts = []
                for i, p in enumerate(net.pending):
                    acts.append(("establish", i))
                    acts.append(("refuse", i))
                if listener_f and len([c for c in conns if c.get("inbound")]) < 1:
                    acts.append(("inbound", 0))
                for i, ent in enumerate(conns):
                    if not ent["lost"]:
                        if ent["pos"] < len(ent["x"]):
                            acts.append(("half", i))
                            acts.append(("rest", i))
                        acts.append(("lose", i))
                if clock.getDelayedCalls():
                    acts.append(("timer", 0))
                if self.variant == "late-bytes" and not result and not cancelled:
                    acts.append(("cancel", 0))       # the application gives up: it cancels the Deferred connect() returned
                return acts

            for step in range(self.steps):
                acts = actions()
                if not acts:
                    break
                if symbolic:
                    a = acts[eng().choose(len(acts), "act%d" % step)]
                else:
                    if step >= len(script["sched"]):
                        break
                    a = tuple(script["sched"][step])
                    a = (a[0], int(a[1]))
                    if a not in acts:
                        return None
                sched.append(a)
                kind, i = a
                if kind == "establish":
                    p = net.pending.pop(i)
                    proto = p["f"].buildProtocol(None)
                    is_relay = proto.relay_handshake is not None
                    ent = new_conn(proto, is_relay)
                    p["d"].callback(proto)
                elif kind == "refuse":
                    p = net.pending.pop(i)
                    p["d"].errback(failure.Failure(error.ConnectionRefusedError()))
                elif kind == "inbound":
                    proto = listener_f[0].buildProtocol(None)
                    ent = new_conn(proto, False)
                    ent["inbound"] = True
                elif kind in ("half", "rest"):
                    ent = conns[i]
                    end = len(ent["x"]) if kind == "rest" else max(ent["pos"] + 1, (ent["pos"] + len(ent["x"])) // 2)
                    chunk = ent["x"][ent["pos"]:end]
                    ent["pos"] = end
                    try:
                        ent["c"].dataReceived(chunk)
                    except (core.Escape, core.Inconclusive, core._Abort, core.Counterexample):
                        raise
                    except Exception as e:
                        core.check_leak(e)
                        pass
                elif kind == "lose":
                    ent = conns[i]
                    ent["lost"] = True
                    ent["c"].connectionLost(failure.Failure(error.ConnectionDone()))
                elif kind == "timer":
                    nxt = min(dc.getTime() for dc in clock.getDelayedCalls())
                    clock.advance(max(0, nxt - clock.seconds()))
                elif kind == "cancel":
                    cancelled.append(1)
                    d.cancel()
                # transports closed by the code under test are reported lost by the reactor (at once, or - variant late-bytes - only when the
                # schedule says so: the "lose" action of such a connection is that report)
                if self.variant != "late-bytes":
                    for ent in conns:
                        if ent["c"].transport.lost and not ent["lost"]:
                            ent["lost"] = True
                            ent["c"].connectionLost(failure.Failure(error.ConnectionDone()))
                if symbolic:
                    self.invariants(o, conns, result, final=False)
            # fair completion: let all timers expire (2*TIMEOUT deadline included)
            for _ in range(40):
                if not clock.getDelayedCalls():
                    break
                nxt = min(dc.getTime() for dc in clock.getDelayedCalls())
                clock.advance(max(0, nxt - clock.seconds()))
                for ent in conns:
                    if ent["c"].transport.lost and not ent["lost"]:
                        ent["lost"] = True
                        ent["c"].connectionLost(failure.Failure(error.ConnectionDone()))
            uncancelled = [p for p in net.pending if not p["d"].called]
            if symbolic:
                self.invariants(o, conns, result, final=True)
                check(not (result and uncancelled), "an outbound attempt is still pending (never cancelled) although connect() has finished")
                eng().note("nt:winner" if (result and result[0][0] == "ok") else "nt:failed")
                return None
            return dict(o=o, conns=conns, result=result, sched=sched, uncancelled=len(uncancelled))

    def matches(self, ent):
        """SymBool/bool: the bytes delivered so far to this contender are a prefix of / equal the expected handshake"""
        n = ent["pos"]
        return beq(ent["x"][:n], ent["exp"][:n]), n == len(ent["exp"])

    def invariants(self, o, conns, result, final):
        go_writers = [e for e in conns if b"go\n" in e["c"].transport.w]
        check(len(go_writers) <= 1, "more than one connection was told go")
        in_records = [e for e in conns if e["c"].state == "records"]
        if o.is_sender:
            check(len(in_records) <= 1, "sender has more than one connection in 'records'")
        for e in conns:
            ok, complete = self.matches(e)
            if e["c"].state == "records":
                check(complete, "connection selected before its whole handshake arrived")
                check(ok, "connection selected although its handshake bytes deviate (party without the key)")
            if b"go\n" in e["c"].transport.w:
                check(sym_and(ok, complete), "go sent to a connection without the correct receiver handshake")
        if result and o.is_sender:
            # the Sender confirms exactly one connection and that is the one connect() hands out: a "go" on any other connection (e.g. on a
            # contender that was cancelled but whose close has not completed yet) puts the two connect() results on different links
            for e in go_writers:
                check(result[0][0] == "ok" and result[0][1] is e["c"], "go was written to a connection that is not what connect() returned")
        if result:
            if result[0][0] == "ok":
                w = result[0][1]
                check(w.state == "records" or any(e["c"] is w and e["lost"] for e in conns), "connect() returned a connection that never reached 'records'")
                check(any(e["c"] is w for e in conns), "connect() returned an unknown object")
                for e in conns:
                    if e["c"] is w:
                        ok, complete = self.matches(e)
                        check(sym_and(ok, complete), "connect() returned a connection with a deviating handshake")
                if final:
                    for e in conns:
                        if e["c"] is not w:
                            check(e["c"].transport.lost > 0 or e["lost"], "a losing contender was left open")
        if final:
            check(bool(result), "connect() still pending after every timer (incl. 2*TIMEOUT) expired")
            # the confirmed link is what connect() returns: a connection that was told go (sender) / saw handshake+go (receiver)
            # and is in 'records' must be the result of connect()
            for e in in_records:
                if not e["lost"]:
                    check(bool(result) and result[0][0] == "ok" and result[0][1] is e["c"],
                          "a connection was confirmed (go) but connect() did not return it")

    def replay(self, inp, label):
        script = dict(inp)
        r = self.execute(script)
        if r is None:
            return None
        o, conns, result = r["o"], r["conns"], r["result"]
        go = [e for e in conns if b"go\n" in e["c"].transport.w]
        if len(go) > 1:
            return "%d connections were told go (schedule %r)" % (len(go), r["sched"])
        recs = [e for e in conns if e["c"].state == "records"]
        if o.is_sender and len(recs) > 1:
            return "sender has %d connections in 'records'" % len(recs)
        for e in conns:
            n = e["pos"]
            good = e["x"][:n] == e["exp"][:n] and n == len(e["exp"])
            if (e["c"].state == "records" or e in go) and not good:
                return "connection selected/confirmed with inbound %r, expected %r (schedule %r)" % (e["x"][:n], e["exp"], r["sched"])
        if result and o.is_sender:
            for e in go:
                if not (result[0][0] == "ok" and result[0][1] is e["c"]):
                    return "go was written to a connection that is not what connect() returned (%r) (schedule %r)" % (result[0][:1], r["sched"])
        if not result:
            return "connect() still pending after all timers expired (schedule %r)" % (r["sched"],)
        if r.get("uncancelled"):
            return "%d outbound attempt(s) still pending (never cancelled) although connect() finished with %r (schedule %r)" % (r["uncancelled"], result[0][0], r["sched"])
        for e in recs:
            if not e["lost"] and not (result[0][0] == "ok" and result[0][1] is e["c"]):
                return "a connection was confirmed (go) and is in 'records' but connect() gave %r (schedule %r)" % (result[0][:1] + (getattr(result[0][1], "__class__", type(None)).__name__,), r["sched"])
        if result[0][0] == "ok":
            w = result[0][1]
            for e in conns:
                if e["c"] is not w and not (e["c"].transport.lost or e["lost"]):
                    return "losing contender left open (schedule %r)" % (r["sched"],)
            if not any(e["c"] is w for e in conns):
                return "connect() returned unknown object"
        return None


def jobs(tier):
    thorough = tier == "thorough"
    J = []
    for sender in (True, False):
        for relay in (False, True):
            for n in ((0, 1, 2, 3, 4) if thorough else (0, 1, 2, 3)):
                J.append(Handshake(sender, relay, n, False))
            for n in ((2, 3, 4) if thorough else (2, 3)):
                J.append(Handshake(sender, relay, n, True))
            for n in ((0, 1, 2) if thorough else (0, 1)):
                J.append(Handshake(sender, relay, n, False, decoy=True))
    k = 5 if thorough else 4
    for sender in (True, False):
        J.append(Contenders(sender, 2, k, False, False))
        J.append(Contenders(sender, 1, k, True, False))
        J.append(Contenders(sender, 0, k + 1, 2, False))
        J.append(Contenders(sender, 1, k, False, True))
        J.append(Contenders(sender, 0, k, False, True))       # the listener is the only contender: connect() still fails by its deadline
        J.append(Contenders(sender, 2, k, False, False, "syncfail"))
        J.append(Contenders(sender, 1, k - 1, True, True, "early-inbound"))
        J.append(Contenders(sender, 1, k, True, False, "late-bytes"))
        if thorough:
            J.append(Contenders(sender, 2, k - 1, True, True))
            J.append(Contenders(sender, 3, k - 1, False, False))
            J.append(Contenders(sender, 1, k + 1, False, False))
    return J


ASSUMPTIONS = [
    "TCP endpoints replaced by fake endpoints/listener on a twisted Clock; a connect attempt completes or is refused as the schedule decides",
    "a transport on which the code under test called loseConnection is reported lost (connectionLost) by the reactor before the next scheduled step",
    "HKDF/hexlify real (concrete key): a peer with a different key is represented by handshake bytes that deviate from the expected ones at some position chosen by the solver",
    "contenders: at most 3 outbound + 1 relay + 1 inbound, schedules of the stated length followed by a fair completion (all timers expire)",
    "chunking inside a contender: its bytes arrive in at most 3 chunks (half/rest); arbitrary chunking of one connection is covered by the hs_* jobs (every cut of the symbolic part) ",
]

if __name__ == "__main__":
    sys.exit(common.main("C07", "harness.c07", level="other", extra_assumptions=ASSUMPTIONS,
                         trusted_base=["fake endpoint/listener/Clock environment", "symrun/loader.py AST call-site pass"],
                         explanation="bounded symbolic execution (symrun + z3) of the real transit handshake and contender-selection code: per-connection acceptance "
                                     "iff the inbound bytes equal the expected handshake (all deviations at all positions, all cuts), and bounded schedules over "
                                     "several contenders with symbolic handshake bytes, loss, refusal and timer expiry"))
