"""C14 - No internal failure on any legal use against a conformant server."""
import sys
from harness import common
from harness.common import Job, check
from symrun import loader
loader.install()
from symrun import core  # noqa: E402
from symrun.core import eng  # noqa: E402
from harness.composed import Sim, honest_policy, replay_actions  # noqa: E402

DOCUMENTED_VERDICTS = {"happy", "LonelyError", "WrongPasswordError", "ServerError", "WelcomeError",
                       "ServerConnectionError"}
DOCUMENTED_LOG = {"_UnknownPhaseError", "_UnknownMessageTypeError"}

CONFIGS = {
    # name: Sim kwargs
    "set-set": dict(modes=("set", "set")),
    "alloc-set": dict(modes=("allocate", "set")),
    "alloc-input": dict(modes=("allocate", "input")),
    "set-set-wrongcode": dict(modes=("set", "set"), wrong_code=True),
    "set-set-deferred": dict(modes=("set", "set"), delegated=(False, False)),
    "alloc-set-dup": dict(modes=("allocate", "set"), adversary=("dup",)),
    "set-input-third": dict(modes=("set", "input"), adversary=("third",)),
    "set-set-third": dict(modes=("set", "set"), adversary=("third",)),
    "alloc-set-srverror": dict(modes=("allocate", "set"), adversary=("srv_error",)),
    "set-set-unwelcome": dict(modes=("set", "set"), welcome_error=True),
    "alloc-input-helper": dict(modes=("allocate", "input"), helper_calls=True),
    "set-input-helper-lossy": dict(modes=("set", "input"), helper_calls=True, eager=False, max_opens=4),
    # connection loss incl. reconnect attempts that die during the WebSocket negotiation (onClose without onOpen) after an earlier success
    "set-set-failed-reconnects": dict(modes=("set", "set"), adversary=("failopen-reconnect",), max_opens=4),
    "alloc-input-failed-reconnects": dict(modes=("allocate", "input"), adversary=("failopen-reconnect",), max_opens=4),
    # several application phases in flight, duplicated / reordered delivery (a later phase can arrive before an earlier one)
    "set-set-3msg-burst-dup": dict(modes=("set", "set"), nmsg=(3, 1), adversary=("dup",), canon="burst"),
    "solo-alloc": dict(modes=("allocate",), nmsg=(1,)),
    "solo-input": dict(modes=("input",), nmsg=(1,), adversary=("third",)),
}

from harness.explore import Explore as _Explore, make_jobs, make_random_jobs  # noqa: E402


def internal_failures(sim):
    """list of (what, detail) internal failures visible so far"""
    out = []
    for c in sim.cl:
        for (what, etype, msg) in c.errors:
            if etype in ("KeyFormatError", "OnlyOneCodeError", "WormholeClosed", "NoKeyError"):
                continue
            out.append(("exception escaped %s" % what.split(":")[0], etype + ": " + msg))
        for e in c.closed_events():
            if e[1] not in DOCUMENTED_VERDICTS:
                out.append(("close() verdict", e[1]))
        if not c.delegated:
            for ent in c.deferred_results.get("close", []):
                if ent and ent[0][0] == "err" and ent[0][1] not in DOCUMENTED_VERDICTS:
                    out.append(("close() verdict", ent[0][1]))
    for l in sim.world.logged:
        if l.split(":")[0] not in DOCUMENTED_LOG:
            out.append(("logged error", l))
    out += swallowed_no_transitions(sim.world, out)
    return out


def swallowed_no_transitions(world, already):
    """'no state machine receives an input it has no transition for' - also when the exception ends up inside a Deferred nobody looks at"""
    seen = " ".join(d for (_, d) in already)
    return [("state machine input without a transition (exception swallowed by a Deferred)", "NoTransition: " + t)
            for t in getattr(world, "no_transitions", []) if t not in seen]


class Explore(_Explore):
    configs = CONFIGS

    def violations(self, sim, when):
        return internal_failures(sim)

    def classify(self, label):
        return classify(label)


def classify(label):
    """known-finding key: the failing (machine state, input) pair / assertion site / exception, from the failure text"""
    import re
    m = re.search(r"(no transition for input \S+ in state \S+)", label)
    if m:
        return m.group(1)
    m = re.search(r"(assert failed in [^)]*\))", label)
    if m:
        return m.group(1)
    m = re.search(r"(\w+Error|\w+Exception)", label)
    if m:
        return "%s (%s)" % (m.group(1), label.split(":")[0])
    return label[:120]


# ---- full stack: legal use includes dilate(); the dilation control phases share the mailbox with everything else
from harness import fullstack as FS  # noqa: E402

FS_CONFIGS = {
    "fs-dilating-reorder": dict(app=True, reorder=True, max_mdrops=2),
    "fs-dilating-late-old-peer": dict(app=True, old_peer=True, dilate_when="late"),
    # a NEWER peer: it dilates, but the only dilation version it offers is one we do not know (disjoint can-dilate lists)
    "fs-disjoint-dilation-versions": dict(app=True, disjoint=True),
}


class FNoFailure(FS.FExplore):
    configs = FS_CONFIGS

    def free_actions(self, sim):
        # legal use only: a write after the local close is the application's own error (what the subchannel answers to it is C13's subject)
        return [a for a in FS.FExplore.free_actions(self, sim) if a[0] != "write_after_close"]

    def final_phase(self, sim):
        did = False
        for a in list(sim.enabled()):
            if a[0] == "stop" and a in sim.enabled():
                sim.do(a)
                did = True
        return did

    def violations(self, sim, when):
        out = []
        for s in sim.w.sides:
            for (what, etype, msg) in s.errors:
                if etype in ("KeyFormatError", "OnlyOneCodeError", "WormholeClosed", "NoKeyError"):
                    continue
                out.append(("exception escaped %s" % what.split(":")[0], etype + ": " + msg))
            for r in s.close_result:
                if r[0] == "err" and r[1] not in DOCUMENTED_VERDICTS:
                    out.append(("close() verdict", r[1]))
                if r[0] == "ok" and r[1] != "happy":
                    out.append(("close() verdict", repr(r[1])))
        for l in sim.w.logged:
            if l.split(":")[0] not in DOCUMENTED_LOG:
                out.append(("logged error", l))
        out += swallowed_no_transitions(sim.w.mw, out)
        return out

    def classify(self, label):
        return classify(label)


def jobs(tier):
    return make_jobs(Explore, tier, 2, 3) + make_random_jobs(Explore, tier) + FS.make_jobs(FNoFailure, tier, 2, 3) + FS.make_random_jobs(FNoFailure, tier, per_cfg=32)


ASSUMPTIONS = [
    "mailbox server model env/client.py written from docs/server-protocol.rst: replies in request order per connection, message broadcast incl. echo, full replay on open; "
    "variants: duplicated/reordered `message` delivery, a third participant adding pake/version/0 messages, one server `error`, welcome with error",
    "frames already received may still be delivered between RendezvousConnector.stop() and ws_close (TLS transports; frames sharing a TCP segment)",
    "legal API use: at most one of allocate/set/input per wormhole, no code-entry call (incl. input-helper calls) after close(), send_message takes bytes",
    "ideal PAKE and ideal AEAD (env/client.py, env/box.py); deterministic randomness",
    "bounded: every prefix of one canonical honest run per configuration + k arbitrary environment/API steps + fair completion",
]

if __name__ == "__main__":
    sys.exit(common.main("C14", "harness.c14", level="other", extra_assumptions=ASSUMPTIONS,
                         trusted_base=["env/client.py server/connectivity model", "ideal PAKE/AEAD"],
                         explanation="bounded symbolic schedules (symrun + z3 case-splitting on action-choice variables) over the real composed client(s): "
                                     "no exception escapes an API call or ws_* entry point, nothing but the documented notices is logged through log.err, "
                                     "close() verdicts are documented ones"))
