"""C14 - No internal failure on any legal use against a conformant server."""
import sys
from harness import common
from harness.common import Job, check
from symrun import loader
loader.install()
from symrun import core  # noqa: E402
from symrun.core import eng  # noqa: E402
from harness.composed import Sim, honest_policy, replay_actions  # noqa: E402

DOCUMENTED_VERDICTS = {"happy", "LonelyError", "WrongPasswordError", "ServerError", "WelcomeError",
                       "ServerConnectionError"}
DOCUMENTED_LOG = {"_UnknownPhaseError", "_UnknownMessageTypeError"}

CONFIGS = {
    # name: Sim kwargs
    "set-set": dict(modes=("set", "set")),
    "alloc-set": dict(modes=("allocate", "set")),
    "alloc-input": dict(modes=("allocate", "input")),
    "set-set-wrongcode": dict(modes=("set", "set"), wrong_code=True),
    "set-set-deferred": dict(modes=("set", "set"), delegated=(False, False)),
    "alloc-set-dup": dict(modes=("allocate", "set"), adversary=("dup",)),
    "set-input-third": dict(modes=("set", "input"), adversary=("third",)),
    "set-set-third": dict(modes=("set", "set"), adversary=("third",)),
    "alloc-set-srverror": dict(modes=("allocate", "set"), adversary=("srv_error",)),
    "set-set-unwelcome": dict(modes=("set", "set"), welcome_error=True),
    "solo-alloc": dict(modes=("allocate",), nmsg=(1,)),
    "solo-input": dict(modes=("input",), nmsg=(1,), adversary=("third",)),
}

_canon_cache = {}


def canonical(cfgname):
    if cfgname not in _canon_cache:
        sim = Sim(**CONFIGS[cfgname])
        try:
            tr = sim.canonical(honest_policy())
        finally:
            sim.close_world()
        _canon_cache[cfgname] = tr
    return _canon_cache[cfgname]


def internal_failures(sim):
    """list of (what, detail) internal failures visible so far"""
    out = []
    for c in sim.cl:
        for (what, etype, msg) in c.errors:
            if etype in ("KeyFormatError", "OnlyOneCodeError", "WormholeClosed", "NoKeyError"):
                continue
            out.append(("exception escaped %s" % what.split(":")[0], etype + ": " + msg))
        for e in c.closed_events():
            if e[1] not in DOCUMENTED_VERDICTS:
                out.append(("close() verdict", e[1]))
        if not c.delegated:
            for ent in c.deferred_results.get("close", []):
                if ent and ent[0][0] == "err" and ent[0][1] not in DOCUMENTED_VERDICTS:
                    out.append(("close() verdict", ent[0][1]))
    for l in sim.world.logged:
        if l.split(":")[0] not in DOCUMENTED_LOG:
            out.append(("logged error", l))
    return out


class Explore(Job):
    functions = ["wormhole.create -> _boss.Boss and every machine it wires (Nameplate, Mailbox, Send, Order, Key, Receive, Lister, Allocator, "
                 "Input, Code, Terminator), _rendezvous.RendezvousConnector.ws_open/ws_message/ws_close/_tx/stop, wormhole._DelegatedWormhole/_DeferredWormhole"]
    shadows = ["_rendezvous.internet.ClientService (fake)", "_key.SPAKE2_Symmetric (ideal PAKE)", "_key.SecretBox (ideal AEAD)",
               "_key.utils.random, os.urandom (deterministic)"]

    def __init__(self, cfg, plo, phi, k):
        self.cfg, self.plo, self.phi, self.k = cfg, plo, phi, k
        self.name = "explore_%s_p%d-%d_k%d" % (cfg, plo, phi, k)
        self.bounds = dict(config=cfg, canonical_prefix_lengths="%d..%d" % (plo, phi - 1), free_steps=k,
                           then="fair completion (reconnect, deliver everything owed, complete stops)")
        self.must_reach = ("nt:explored",)

    def oracle(self, sim, when):
        fails = internal_failures(sim)
        for what, detail in fails:
            check(False, "%s: %s" % (what, detail))
        return not fails

    def scenario(self):
        canon = canonical(self.cfg)
        span = [p for p in range(self.plo, self.phi) if p <= len(canon)]
        if not span:
            raise core._Abort()
        p = span[eng().choose(len(span), "prefix")]
        sim = Sim(**CONFIGS[self.cfg])
        sched = []
        eng().inputs["prefix"] = p
        eng().inputs["sched"] = sched
        try:
            ok = replay_actions(sim, canon[:p])
            assert ok, "canonical prefix not replayable"
            if not self.oracle(sim, "prefix"):
                return
            for step in range(self.k):
                acts = sim.enabled()
                if not acts:
                    break
                a = acts[eng().choose(len(acts), "act%d" % step)]
                sched.append(list(a))
                sim.do(a)
                if not self.oracle(sim, "step"):
                    return
            sim.settle()
            self.oracle(sim, "settled")
            eng().note("nt:explored")
        finally:
            sim.close_world()

    def key(self, inp, label):
        return classify(label)

    def replay(self, inp, label):
        canon = canonical(self.cfg)
        sim = Sim(**CONFIGS[self.cfg])
        try:
            if not replay_actions(sim, canon[:inp["prefix"]]):
                return None
            fails = internal_failures(sim)
            for a in inp["sched"]:
                if fails:
                    break
                a = tuple(a)
                if a not in sim.enabled():
                    return None
                sim.do(a)
                fails = internal_failures(sim)
            if not fails:
                sim.settle()
                fails = internal_failures(sim)
            if fails:
                return "config %s, after canonical prefix %r + %r: %s" % (
                    self.cfg, [tuple(x) for x in canon[max(0, inp["prefix"] - 3):inp["prefix"]]], inp["sched"], fails[0])
            return None
        finally:
            sim.close_world()


def classify(label):
    """known-finding key: the failing (machine state, input) pair / assertion site / exception, from the failure text"""
    import re
    m = re.search(r"(no transition for input \S+ in state \S+)", label)
    if m:
        return m.group(1)
    m = re.search(r"(assert failed in [^)]*\))", label)
    if m:
        return m.group(1)
    m = re.search(r"(\w+Error|\w+Exception)", label)
    if m:
        return "%s (%s)" % (m.group(1), label.split(":")[0])
    return label[:120]


def jobs(tier):
    thorough = tier == "thorough"
    k = 3 if thorough else 2
    J = []
    for cfg in CONFIGS:
        n = len(canonical(cfg))
        step = 4 if thorough else 8
        for lo in range(0, n + 1, step):
            J.append(Explore(cfg, lo, min(lo + step, n + 1), k))
    return J


ASSUMPTIONS = [
    "mailbox server model env/client.py written from docs/server-protocol.rst: replies in request order per connection, message broadcast incl. echo, full replay on open; "
    "variants: duplicated/reordered `message` delivery, a third participant adding pake/version/0 messages, one server `error`, welcome with error",
    "frames already received may still be delivered between RendezvousConnector.stop() and ws_close (TLS transports; frames sharing a TCP segment)",
    "legal API use: at most one of allocate/set/input per wormhole, no code-entry call (incl. input-helper calls) after close(), send_message takes bytes",
    "ideal PAKE and ideal AEAD (env/client.py, env/box.py); deterministic randomness",
    "bounded: every prefix of one canonical honest run per configuration + k arbitrary environment/API steps + fair completion",
]

if __name__ == "__main__":
    sys.exit(common.main("C14", "harness.c14", level="other", extra_assumptions=ASSUMPTIONS,
                         trusted_base=["env/client.py server/connectivity model", "ideal PAKE/AEAD"],
                         explanation="bounded symbolic schedules (symrun + z3 case-splitting on action-choice variables) over the real composed client(s): "
                                     "no exception escapes an API call or ws_* entry point, nothing but the documented notices is logged through log.err, "
                                     "close() verdicts are documented ones"))
