"""Generic 'canonical prefix + k free steps + fair completion' exploration job over harness.composed.Sim,
parameterised by an oracle.  Used by C03, C08, C09, C14, C18."""
from harness.common import Job, check
from symrun import core
from symrun.core import eng
from harness.composed import Sim, honest_policy, replay_actions

_canon_cache = {}


BURST_ORDER = ("open", "set_code", "allocate", "input", "send", "proc", "turn", "rx", "choose_nameplate", "choose_words", "stopped")


LAZY_ORDER = ("open", "set_code", "allocate", "input", "send", "rx", "turn", "choose_nameplate", "choose_words", "proc", "stopped")


def sim_args(cfg):
    return {k: v for k, v in cfg.items() if k != "canon"}


def canonical(cfgname, configs, close=True):
    key = (cfgname, close)
    if key not in _canon_cache:
        cfg = configs[cfgname]
        sim = Sim(**sim_args(cfg))
        try:
            if cfg.get("canon") == "burst":
                # application calls first (all send_message calls are issued before anything is delivered)
                tr = sim.canonical(honest_policy(close=close, order=BURST_ORDER))
            elif cfg.get("canon") in ("starveA", "starveB"):
                # one client's inbound queue is served last: several peer messages are pending for it at once
                tr = sim.canonical(honest_policy(close=close, order=("open", "set_code", "allocate", "input", "choose_nameplate", "choose_words",
                                                                    "send", "proc", "turn", "rx", "stopped"),
                                                 prefer="B" if cfg["canon"] == "starveA" else "A"))
            elif cfg.get("canon") == "lazy":
                # the server processes commands as late as possible (unprocessed commands pile up and can be lost together)
                tr = sim.canonical(honest_policy(close=close, order=LAZY_ORDER))
            else:
                tr = sim.canonical(honest_policy(close=close))
            # vacuity guard: an honest two-party run with matching codes must actually get somewhere (both sides past key agreement),
            # otherwise the checkpoints would all sit in the first few protocol steps
            if len(sim.cl) == 2 and not sim.wrong_code and not cfg.get("welcome_error") and cfg.get("appids", ("a", "a"))[0] == cfg.get("appids", ("a", "a"))[1]:
                stuck = [c.name for c in sim.cl if c.state("B") in ("S0_empty", "S1_lonely")]
                if stuck:
                    CANON_STALLED[cfgname] = "canonical run of config %r stalled before key agreement on side(s) %r after %d steps" % (cfgname, stuck, len(tr))
        finally:
            sim.close_world()
        _canon_cache[key] = tr
    return _canon_cache[key]


# vacuity guard (see canonical()): the prefixes of a stalled honest run are still explored; a path that then ends without a violation is inconclusive
CANON_STALLED = {}


class Explore(Job):
    functions = ["wormhole.create -> _boss.Boss and every machine it wires (Nameplate, Mailbox, Send, Order, Key, Receive, Lister, Allocator, "
                 "Input, Code, Terminator), _rendezvous.RendezvousConnector.ws_open/ws_message/ws_close/_tx/stop, "
                 "wormhole._DelegatedWormhole/_DeferredWormhole, observer.OneShotObserver/SequenceObserver, eventual.EventualQueue"]
    shadows = ["_rendezvous.internet.ClientService (fake)", "_key.SPAKE2_Symmetric (ideal PAKE)", "_key.SecretBox (ideal AEAD)",
               "_key.utils.random, os.urandom (deterministic)"]
    configs = {}
    allowed = None        # restrict free steps to these action kinds (None = all enabled)
    canonical_close = True
    honest_completion = True   # after the fair completion of the network, the applications finish what an honest run still has to do

    def __init__(self, cfg, plo, phi, k):
        self.cfg, self.plo, self.phi, self.k = cfg, plo, phi, k
        self.name = "explore_%s_p%d-%d_k%d" % (cfg, plo, phi, k)
        self.bounds = dict(config=cfg, config_args={k2: (list(v) if isinstance(v, tuple) else v) for k2, v in self.configs[cfg].items()},
                           canonical_prefix_lengths="%d..%d" % (plo, phi - 1), free_steps=k,
                           free_step_kinds="all enabled" if self.allowed is None else sorted(self.allowed),
                           then="fair completion (reconnect, deliver everything owed, complete stops, drain eventual queue), oracle, then honest completion (the applications enter the code and send what an honest run still has to; everything delivered), oracle")
        self.must_reach = ("nt:explored",)

    # to be provided by subclasses: list of (label, detail)
    def violations(self, sim, when):
        raise NotImplementedError

    def classify(self, label):
        return label

    def key(self, inp, label):
        return self.classify(label)

    def _oracle(self, sim, when):
        v = self.violations(sim, when)
        for what, detail in v:
            check(False, "%s: %s" % (what, detail))
        if not v:
            # a concrete oracle evaluation on this (solver-selected) schedule prefix: counted as a trivially-true obligation
            st = eng().stats
            st.obligations += 1
            st.discharged += 1
            st.trivial += 1
        return not v

    def free_actions(self, sim):
        acts = sim.enabled()
        if self.allowed is not None:
            acts = [a for a in acts if a[0] in self.allowed]
        return acts

    def scenario(self):
        canon = canonical(self.cfg, self.configs, self.canonical_close)
        span = [p for p in range(self.plo, self.phi) if p <= len(canon)]
        if not span:
            raise core._Abort()
        p = span[eng().choose(len(span), "prefix")]
        sim = Sim(**sim_args(self.configs[self.cfg]))
        sched = []
        eng().inputs["prefix"] = p
        eng().inputs["sched"] = sched
        try:
            ok = replay_actions(sim, canon[:p])
            assert ok, "canonical prefix not replayable"
            if not self._oracle(sim, "prefix"):
                return
            for step in range(self.k):
                acts = self.free_actions(sim)
                if not acts:
                    break
                a = acts[eng().choose(len(acts), "act%d" % step)]
                sched.append(list(a))
                sim.do(a)
                if not self._oracle(sim, "step"):
                    return
            sim.settle()
            if self._oracle(sim, "settled") and self.honest_completion:
                sim.complete(close=False)
                self._oracle(sim, "settled")
            if self.cfg in CANON_STALLED:
                eng().note("canonical-stalled: " + CANON_STALLED[self.cfg])      # -> inconclusive unless the job found a violation (harness/common.py)
            eng().note("nt:explored")
        finally:
            eng().stats.cover |= sim.world.transitions
            sim.close_world()

    def replay(self, inp, label):
        canon = canonical(self.cfg, self.configs, self.canonical_close)
        sim = Sim(**sim_args(self.configs[self.cfg]))
        try:
            if not replay_actions(sim, canon[:inp["prefix"]]):
                return None
            fails = self.violations(sim, "prefix")
            for a in inp["sched"]:
                if fails:
                    break
                a = tuple(a)
                if a not in sim.enabled():
                    return None
                sim.do(a)
                fails = self.violations(sim, "step")
            if not fails:
                sim.settle()
                fails = self.violations(sim, "settled")
            if not fails and self.honest_completion:
                sim.complete(close=False)
                fails = self.violations(sim, "settled")
            if fails:
                return "config %s, canonical prefix of %d steps (...%r) + %r: %s: %s" % (
                    self.cfg, inp["prefix"], [tuple(x) for x in canon[max(0, inp["prefix"] - 3):inp["prefix"]]],
                    [tuple(x) for x in inp["sched"]], fails[0][0], fails[0][1])
            return None
        finally:
            sim.close_world()


class RandomPrefixMixin:
    """deepening: checkpoints that are not prefixes of a canonical run.  A checkpoint is the state reached by a pseudo-random
    legal schedule (seeded, so reproducible); from it the same k free steps are explored exhaustively under the solver and the
    same oracle applies.  The random part only *selects pre-states*; every verdict still comes from the exhaustive suffix."""
    batch = ()          # seeds handled by this job
    plen = 10

    def gen_prefix(self, sim, seed):
        import random
        rnd = random.Random(seed)
        n = rnd.randrange(3, self.plen + 1)
        out = []
        for _ in range(n):
            acts = self.free_actions(sim)
            if not acts:
                break
            # bias towards progress: deliveries and API calls twice as likely as faults
            weights = [1 if a[0] in ("drop", "close", "lose", "stop") else 2 for a in acts]
            a = rnd.choices(acts, weights)[0]
            sim.do(a)
            out.append(a)
            if self.violations(sim, "step"):
                break
        return out

    def scenario(self):
        seeds = list(self.batch)
        seed = seeds[eng().choose(len(seeds), "seed")]
        sim = Sim(**sim_args(self.configs[self.cfg]))
        sched = []
        eng().inputs["rseed"] = seed
        eng().inputs["sched"] = sched
        try:
            pre = self.gen_prefix(sim, seed)
            if not self._oracle(sim, "prefix"):
                return
            for step in range(self.k):
                acts = self.free_actions(sim)
                if not acts:
                    break
                a = acts[eng().choose(len(acts), "act%d" % step)]
                sched.append(list(a))
                sim.do(a)
                if not self._oracle(sim, "step"):
                    return
            sim.settle()
            if self._oracle(sim, "settled") and self.honest_completion:
                sim.complete(close=False)
                self._oracle(sim, "settled")
            eng().note("nt:explored")
        finally:
            sim.close_world()

    def replay(self, inp, label):
        sim = Sim(**sim_args(self.configs[self.cfg]))
        try:
            pre = self.gen_prefix(sim, inp["rseed"])
            fails = self.violations(sim, "prefix")
            for a in inp["sched"]:
                if fails:
                    break
                a = tuple(a)
                if a not in sim.enabled():
                    return None
                sim.do(a)
                fails = self.violations(sim, "step")
            if not fails:
                sim.settle()
                fails = self.violations(sim, "settled")
            if not fails and self.honest_completion:
                sim.complete(close=False)
                fails = self.violations(sim, "settled")
            if fails:
                return "config %s, pseudo-random checkpoint (seed %d: %r) + %r: %s: %s" % (
                    self.cfg, inp["rseed"], pre, [tuple(x) for x in inp["sched"]], fails[0][0], fails[0][1])
            return None
        finally:
            sim.close_world()


def make_random_jobs(cls, tier, per_cfg=96, batch=6, k=2, plen=12, base_seed=0):
    """thorough tier only"""
    if tier != "thorough":
        return []
    import os
    base = int(os.environ.get("VERIF_SEED", "0") or 0) * 100003 + base_seed
    rcls = type("Random" + cls.__name__, (RandomPrefixMixin, cls), {})
    J = []
    for cfg in cls.configs:
        for b in range(0, per_cfg, batch):
            j = rcls(cfg, 0, 1, k)
            j.batch = tuple(base + b + i for i in range(batch))
            j.plen = plen
            j.name = "random_%s_s%d-%d_k%d" % (cfg, j.batch[0], j.batch[-1], k)
            j.bounds = dict(j.bounds, checkpoints="pseudo-random legal schedules of 3..%d steps, seeds %d..%d" % (plen, j.batch[0], j.batch[-1]))
            j.must_reach = ()
            J.append(j)
    return J


def make_jobs(cls, tier, kq, kt, stepq=8, stept=4):
    thorough = tier == "thorough"
    k = kt if thorough else kq
    J = []
    for cfg in cls.configs:
        n = len(canonical(cfg, cls.configs, cls.canonical_close))
        step = stept if thorough else stepq
        for lo in range(0, n + 1, step):
            J.append(cls(cfg, lo, min(lo + step, n + 1), k))
    return J
