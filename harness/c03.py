"""C03 - Mailbox messages arrive in order, exactly once, unmodified."""
import sys
from harness import common
from symrun import loader
loader.install()
from harness.composed import payload  # noqa: E402
from harness.explore import Explore, make_jobs, make_random_jobs  # noqa: E402

CONFIGS = {
    "set-set-2msg": dict(modes=("set", "set"), nmsg=(2, 2)),
    "set-set-3msg-dup": dict(modes=("set", "set"), nmsg=(3, 1), adversary=("dup",)),
    "alloc-set-dup": dict(modes=("allocate", "set"), nmsg=(2, 2), adversary=("dup",)),
    "alloc-input-2msg": dict(modes=("allocate", "input"), nmsg=(2, 2)),
    "set-set-deferred-dup": dict(modes=("set", "set"), nmsg=(2, 2), delegated=(False, False), adversary=("dup",)),
    "set-set-lossy": dict(modes=("set", "set"), nmsg=(2, 2), eager=False),
    "set-set-3msg-burst-dup": dict(modes=("set", "set"), nmsg=(3, 3), adversary=("dup",), canon="burst"),
    "alloc-set-3msg-burst-dup": dict(modes=("allocate", "set"), nmsg=(3, 2), adversary=("dup",), canon="burst"),
    # the WebSocket may start closing at any moment: until its onClose is delivered every send on it fails (autobahn raises Disconnected out of
    # send_message(); judged here is only what the peer receives - whether that exception may escape is C14's subject)
    "set-set-3msg-wsclosing": dict(modes=("set", "set"), nmsg=(3, 1), adversary=("wsclosing",)),
    "set-set-deferred-getters-burst": dict(modes=("set", "set"), nmsg=(3, 1), delegated=(False, False), auto_get=False, getters=True, canon="burst"),
}


class MsgExplore(Explore):
    configs = CONFIGS
    canonical_close = False

    def violations(self, sim, when):
        out = []
        env_induced = (lambda e: e[0] == "api:send_message" and e[1] == "Disconnected") if "wsclosing" in sim.adv else (lambda e: False)
        if len(sim.cl) != 2 or any(not env_induced(e) for c in sim.cl for e in c.errors):
            return out
        for i, c in enumerate(sim.cl):
            got = [e[1] for e in c.ev if e[0] == "message"]
            peer = "AB"[1 - i]
            sent = [payload(peer, n) for n in range(sim.api[1 - i]["sent"])]
            if sim.getters and not c.delegated:
                # deferred API with explicit get_message() calls: the k-th call's result is the k-th message (results in call order)
                res = [ent[0][1] for (what, ent, _) in getattr(c, "get_log", []) if what == "get_message" and ent and ent[0][0] == "ok"]
                pend = [bool(ent) for (what, ent, _) in getattr(c, "get_log", []) if what == "get_message"]
                if res != sent[:len(res)]:
                    out.append(("get_message() results are not the peer's messages in call order", "%s got %r, peer sent %r" % (c.name, res, sent)))
                continue
            if got != sent[:len(got)]:
                out.append(("received sequence is not a prefix of what the peer sent", "%s got %r, peer sent %r" % (c.name, got, sent)))
            if when == "settled" and not sim.api[i]["closed"] and not sim.api[1 - i]["closed"] and \
                    sim.api[0]["code"] and sim.api[1]["code"] and (sim.modes[i] != "input" or sim.api[i]["words"]) and \
                    (sim.modes[1 - i] != "input" or sim.api[1 - i]["words"]):
                if got != sent:
                    out.append(("a sent message was not delivered although both sides stayed up", "%s got %r, peer sent %r" % (c.name, got, sent)))
        return out

    def classify(self, label):
        return label.split(":")[0]


# ---- full stack: application messages share the mailbox with the dilation control phases of two really dilating wormholes
from harness import fullstack as FS  # noqa: E402

FS_CONFIGS = {
    "fs-2msg-dilating-reorder": dict(app=False, nmsg=(2, 2), reorder=True, max_mdrops=2, stoppable=False),
}


class FMessages(FS.FExplore):
    configs = FS_CONFIGS

    def violations(self, sim, when):
        return FS.app_message_violations(sim, when)


def jobs(tier):
    from harness.phase_dispatch import PhaseDispatch, HoldBack
    return [PhaseDispatch(), HoldBack()] + make_jobs(MsgExplore, tier, 2, 3, stepq=8, stept=6) + make_random_jobs(MsgExplore, tier) + \
        FS.make_jobs(FMessages, tier, 2, 3)


ASSUMPTIONS = [
    "server/connectivity model env/client.py: store-and-forward, full mailbox replay on every open, optional duplicated/reordered `message` delivery (dup), "
    "optional loss of in-flight commands and replies on a drop (lossy)",
    "ideal PAKE/AEAD; message contents are fixed distinct byte strings (the code under test never inspects them; content integrity under tampering is C02)",
    "bounded: every prefix of one canonical honest run per configuration (up to 3 messages per direction) + k arbitrary steps + fair completion",
]

if __name__ == "__main__":
    sys.exit(common.main("C03", "harness.c03", level="other", extra_assumptions=ASSUMPTIONS,
                         trusted_base=["env/client.py server/connectivity model", "ideal PAKE/AEAD"],
                         explanation="bounded symbolic schedules over two real composed clients: at every step each side's received sequence is a prefix of the peer's "
                                     "send_message arguments (no dup/skip/reorder/alteration); after fair completion everything sent was delivered"))
