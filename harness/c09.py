"""C09 - Mailbox session survives connection loss: nothing lost, nothing repeated."""
import sys
from harness import common
from symrun import loader
loader.install()
from harness.composed import payload  # noqa: E402
from harness.explore import Explore, make_jobs, make_random_jobs  # noqa: E402

CONFIGS = {
    "set-set-lossy": dict(modes=("set", "set"), nmsg=(1, 1), eager=False, max_opens=4),
    "alloc-set-lossy": dict(modes=("allocate", "set"), nmsg=(1, 1), eager=False, max_opens=4),
    "alloc-input-lossy": dict(modes=("allocate", "input"), nmsg=(1, 1), eager=False, max_opens=4),
    "set-set-eager": dict(modes=("set", "set"), nmsg=(2, 1), max_opens=4),
    # reconnect attempts that die during the WebSocket negotiation (onClose without onOpen) after an earlier successful connection
    "set-set-failed-reconnects": dict(modes=("set", "set"), nmsg=(1, 1), max_opens=4, adversary=("failopen-reconnect",)),
    "alloc-set-lossy-failed-reconnects": dict(modes=("allocate", "set"), nmsg=(1, 1), eager=False, max_opens=4, adversary=("failopen-reconnect",)),
    "set-set-lossy-lazy": dict(modes=("set", "set"), nmsg=(1, 1), eager=False, canon="lazy", max_opens=4),
}
RESEND = {"claim": "claimed", "release": "released", "open": None, "allocate": "allocated", "list": "nameplates"}


class LossExplore(Explore):
    configs = CONFIGS
    canonical_close = False
    allowed = {"drop", "open", "failopen", "close", "proc", "rx", "send", "set_code", "allocate", "input", "choose_nameplate", "choose_words", "turn"}

    def violations(self, sim, when):
        out = []
        for c in sim.cl:
            for (what, etype, msg) in c.errors:
                out.append(("internal failure while resuming the session", "%s: %s %s: %s" % (c.name, what, etype, msg)))
        if out:
            return out
        for i, c in enumerate(sim.cl):
            tags = [e[0] for e in c.ev]
            for t in ("code", "key", "verifier", "versions"):
                if tags.count(t) > 1:
                    out.append(("application event repeated after a reconnect", "%s: %s in %r" % (c.name, t, tags)))
            got = [e[1] for e in c.ev if e[0] == "message"]
            if len(got) != len(set(got)):
                out.append(("application message repeated after a reconnect", "%s: %r" % (c.name, got)))
        # per connection: bind is the first command the server sees
        for cn in sim.world.server.conns:
            if cn.log and cn.log[0] != "bind":
                out.append(("first command on a connection is not bind", "conn %d of %s: %r" % (cn.n, cn.client.name, cn.log)))
        if when == "settled":
            for i, c in enumerate(sim.cl):
                # interactive entry asked for the nameplate list: the request must reach the server on some connection
                if sim.api[i]["helper"] is not None and not sim.api[i]["closed"] and not any("list" in cn.log for cn in sim.world.server.conns if cn.client is c):
                    out.append(("nameplate list request never (re)issued after connecting", "%s: L=%s" % (c.name, c.state("L"))))
        if when == "settled":
            # the closed notification is an application-visible event, too: a close() issued around a connection loss still completes
            for i, c in enumerate(sim.cl):
                if sim.api[i]["closed"] and not any(e[0] == "closed" for e in c.ev):
                    out.append(("close() did not complete after connectivity returned", "%s: T=%s M=%s N=%s" % (c.name, c.state("T"), c.state("M"), c.state("N"))))
        if when == "settled" and len(sim.cl) == 2 and not any(a["closed"] for a in sim.api):
            ready = all(sim.api[j]["code"] and (sim.modes[j] != "input" or sim.api[j]["words"]) for j in range(2))
            if ready:
                for i, c in enumerate(sim.cl):
                    tags = [e[0] for e in c.ev]
                    for t in ("key", "verifier", "versions"):
                        if t not in tags:
                            out.append(("key exchange did not complete after connectivity returned", "%s lacks %s: %r (N=%s M=%s K=%s)" % (
                                c.name, t, tags, c.state("N"), c.state("M"), c.state("SK"))))
                    got = [e[1] for e in c.ev if e[0] == "message"]
                    sent = [payload("AB"[1 - i], n) for n in range(sim.api[1 - i]["sent"])]
                    if got != sent:
                        out.append(("send_message() lost or repeated across reconnects", "%s got %r, peer sent %r" % (c.name, got, sent)))
        return out

    def classify(self, label):
        return label.split(":")[0]


class LongSession(LossExplore):
    """a long session (more than 16 messages in one direction, so that any bounded bookkeeping of seen phases/messages would roll over): one or two
    connection losses at every point of the honest run, nothing else"""
    configs = {"set-set-long": dict(modes=("set", "set"), nmsg=(20, 1), max_opens=4, canon="burst")}
    allowed = {"drop", "open"}


def jobs(tier):
    return (make_jobs(LossExplore, tier, 3, 4, stepq=8, stept=6) + make_random_jobs(LossExplore, tier) +
            make_jobs(LongSession, tier, 2, 3, stepq=12, stept=8))


ASSUMPTIONS = [
    "server/connectivity model env/client.py in lossy mode: commands sent by the client are processed by the server only when the schedule says so; "
    "a drop discards unprocessed commands and undelivered replies; the server keeps its state (no server restart)",
    "'eventual stable connectivity' = fair completion: both sides reconnect and everything owed is delivered",
    "bounded: up to 4 connections per side, every prefix of one canonical run per configuration + k arbitrary steps of {drop, open, process-one-command, deliver-one-reply, API calls}",
    "ideal PAKE/AEAD",
]

if __name__ == "__main__":
    sys.exit(common.main("C09", "harness.c09", level="other", extra_assumptions=ASSUMPTIONS,
                         trusted_base=["env/client.py server/connectivity model", "ideal PAKE/AEAD"],
                         explanation="bounded symbolic fault schedules over two real composed clients with loss of in-flight commands/replies: bind first on every "
                                     "connection, no application event repeated, and after fair completion key/verifier/versions on both sides and every "
                                     "send_message delivered exactly once"))
