"""C06 - Transit delivers exactly the records sent, or drops the connection."""
import sys
import builtins
from binascii import hexlify as _real_hexlify
from harness import common
from harness.common import Job, check
from symrun import loader
loader.install()
from symrun import core  # noqa: E402
from symrun.core import eng  # noqa: E402
from symrun import values as V  # noqa: E402
from symrun.values import (SymInt, SymBytes, SymBool, fresh_int, fresh_bytes, sym_and, sym_or, sym_not,  # noqa: E402
                           HexView, sym_int, zbyte)
from env.box import BoxWorld, make_box_class  # noqa: E402
import z3  # noqa: E402

from zope.interface import implementer  # noqa: E402
from twisted.internet import interfaces, defer, error  # noqa: E402
from twisted.internet.task import Clock  # noqa: E402
from nacl.exceptions import CryptoError  # noqa: E402
from wormhole import transit as T  # noqa: E402

KEY = b"\x11" * 32


def sym_hexlify(b):
    if isinstance(b, SymBytes):
        if b.is_concrete():
            return _real_hexlify(b.concrete())
        return HexView(b)
    return _real_hexlify(b)


class LogRec:
    def __init__(self):
        self.msgs = []

    def msg(self, *a, **kw):
        self.msgs.append(a)

    def err(self, *a, **kw):
        self.msgs.append(("err",) + a)


def shadows(world):
    return loader.shadow((T, "hexlify", sym_hexlify), (T, "int", sym_int), (T, "isinstance", V.sym_isinstance),
                         (T, "SecretBox", make_box_class(world)), (T, "log", LogRec()))


SHADOWS = ["transit.hexlify/int (hex view of symbolic bytes: int(hexlify(b),16) == big-endian value)",
           "transit.isinstance", "transit.SecretBox (ideal AEAD, env/box.py)", "transit.log"]


@implementer(interfaces.ITransport, interfaces.IConsumer)
class Tr:
    def __init__(self):
        self.w = []
        self.lost = 0

    def write(self, d):
        self.w.append(d)

    def loseConnection(self):
        self.lost += 1

    def registerProducer(self, p, s):
        pass

    def unregisterProducer(self):
        pass

    def take(self):
        w, self.w = self.w, []
        return w


class Fac:
    def connectionWasMade(self, p):
        pass


def cat(parts):
    out = SymBytes([])
    for p in parts:
        out = out + p
    return out


def mk_conn(owner, clock):
    c = T.Connection(owner, None, 0, "desc")
    c.transport = Tr()
    c.factory = Fac()
    c.callLater = clock.callLater
    return c


def build_pair():
    """two real Connections negotiated to 'records' through the real handshake code"""
    clock = Clock()
    import os
    snd = T.TransitSender(None, no_listen=True, reactor=clock)
    rcv = T.TransitReceiver(None, no_listen=True, reactor=clock)
    snd.set_transit_key(KEY)
    rcv.set_transit_key(KEY)
    cs, cr = mk_conn(snd, clock), mk_conn(rcv, clock)
    ds, dr = cs.startNegotiation(), cr.startNegotiation()
    res = {}
    ds.addBoth(lambda r: res.setdefault("s", r))
    dr.addBoth(lambda r: res.setdefault("r", r))
    for _ in range(4):
        for d in cs.transport.take():
            cr.dataReceived(d)
        for d in cr.transport.take():
            cs.dataReceived(d)
    assert cs.state == "records" and cr.state == "records", (cs.state, cr.state)
    assert res.get("s") is cs and res.get("r") is cr
    return cs, cr


def payload(i, n):
    return bytes([0x41 + i]) * n


def feed(c, chunks):
    """deliver chunks; an exception escaping dataReceived is what Twisted's reactor would log before
    dropping the connection - recorded, not fatal"""
    exc = None
    for ch in chunks:
        try:
            c.dataReceived(ch)
        except (core.Escape, core.Inconclusive, core._Abort, core.Counterexample):
            raise
        except Exception as e:
            core.check_leak(e)
            exc = type(e).__name__
    return exc


def observe(c, got):
    return dict(n=len(got), state=c.state, lost=c.transport.lost > 0, nonce=c.next_receive_nonce)


def parser_state_eq(a, b):
    if a.state != b.state or (a.transport.lost > 0) != (b.transport.lost > 0):
        return False
    if len(a.buf) != len(b.buf):
        return False
    cs = [a.next_receive_nonce == b.next_receive_nonce]
    if len(a.buf):
        ba = a.buf if isinstance(a.buf, SymBytes) else SymBytes(list(a.buf))
        cs.append(ba == b.buf)
    return sym_and(*cs)


# ---------------------------------------------------------------------- chunking
class Chunking(Job):
    """dataReceived(s[:c]); dataReceived(s[c:])  ==  dataReceived(s) on outputs and full parser state,
    for s = k honest records followed by t arbitrary bytes and every cut c in this job's range"""
    functions = ["transit.Connection.dataReceived/_dataReceived", "Connection.dataReceivedRECORDS", "Connection._decrypt_record",
                 "Connection.recordReceived/_deliverRecords/receive_record", "Connection.send_record", "Connection._negotiationSuccessful",
                 "Connection.startNegotiation/_check_and_remove (concrete set-up)"]
    shadows = SHADOWS

    def __init__(self, lens, tail, cuts, direction):
        self.lens, self.tail, self.cuts, self.direction = lens, tail, list(cuts), direction
        self.name = "chunk_%s_%s_t%d_c%d-%d" % (direction, "-".join(map(str, lens)), tail, self.cuts[0], self.cuts[-1])
        self.bounds = dict(record_lengths=lens, arbitrary_tail_bytes=tail, cuts="%d..%d" % (self.cuts[0], self.cuts[-1]),
                           direction=direction)
        self.must_reach = ("nt:equal",)

    def make(self, world, tail):
        cs, cr = build_pair()
        snd, rcv = (cs, cr) if self.direction == "s2r" else (cr, cs)
        pts = []
        for i, n in enumerate(self.lens):
            p = payload(i, n)
            pts.append(p)
            snd.send_record(p)
        stream = cat(snd.transport.take())
        if isinstance(tail, (bytes, SymBytes)) and len(tail):
            stream = stream + tail
        return rcv, pts, stream

    def run(self, world, stream_chunks_of):
        pass

    def scenario(self):
        world = BoxWorld()
        with shadows(world):
            tail = fresh_bytes("tail", self.tail)
            eng().inputs["tail"] = tail
            ci = eng().choose(len(self.cuts), "cut")
            cut = self.cuts[ci]
            eng().inputs["cut"] = cut
            # two independent receivers fed the same stream (same world => same ciphertext terms)
            rcvA, pts, stream = self.make(world, tail)
            world2 = BoxWorld()
            # the second pair must see byte-identical ciphertexts: reuse world entries by replaying send on a
            # fresh pair inside the *same* world is not possible (fresh bytes), so run B on a clone of A's peer
            gotA, gotB = [], []
            rcvB = clone_receiver(rcvA)
            rcvA.recordReceived = gotA.append
            rcvB.recordReceived = gotB.append
            if cut > len(stream):
                raise core._Abort()
            excA = feed(rcvA, [stream])
            excB = feed(rcvB, [stream[:cut], stream[cut:]])
            check(len(gotA) == len(gotB), "number of delivered records depends on chunking")
            for x, y in zip(gotA, gotB):
                check(x == y, "delivered record depends on chunking")
            check(parser_state_eq(rcvA, rcvB), "parser state depends on chunking")
            check(excA == excB, "error class depends on chunking")
            k = len(gotA)
            check(gotA == pts[:k], "delivered records are not a prefix of the sent records")
            if not self.tail:
                check(k == len(pts) and rcvA.state == "records" and not rcvA.transport.lost, "honest stream not fully delivered")
            eng().note("nt:equal")
            return (k, rcvA.state, excA)

    def _concrete(self, inp, ideal):
        world = BoxWorld({k: v for k, v in inp.items() if k.startswith("box")})
        ctx = loader.shadow((T, "SecretBox", make_box_class(world))) if ideal else loader.shadow()
        with ctx:
            rcvA, pts, stream = self.make(world, inp["tail"])
            stream = stream.concrete() if isinstance(stream, SymBytes) else stream
            rcvB = clone_receiver(rcvA)
            gotA, gotB = [], []
            rcvA.recordReceived = gotA.append
            rcvB.recordReceived = gotB.append
            cut = inp["cut"]
            excA = feed(rcvA, [stream])
            excB = feed(rcvB, [stream[:cut], stream[cut:]])
        return rcvA, rcvB, gotA, gotB, excA, excB, pts

    def validate(self, inp, observed):
        with loader.shadow((T, "log", LogRec())):
            rcvA, rcvB, gotA, gotB, excA, excB, pts = self._concrete(inp, True)
        obs = (len(gotA), rcvA.state, excA)
        if tuple(observed) != obs:
            return "symbolic %r vs concrete %r on %r" % (observed, obs, {k: v for k, v in inp.items() if not k.startswith("box")})

    def replay(self, inp, label):
        for ideal in (False, True):
            rcvA, rcvB, gotA, gotB, excA, excB, pts = self._concrete(inp, ideal)
            how = "ideal AEAD stub" if ideal else "real NaCl SecretBox"
            if gotA != gotB:
                return "[%s] delivered records depend on chunking at cut %d: %r vs %r" % (how, inp["cut"], gotA, gotB)
            if (rcvA.state, rcvA.buf, rcvA.next_receive_nonce, rcvA.transport.lost > 0, excA) != \
                    (rcvB.state, rcvB.buf, rcvB.next_receive_nonce, rcvB.transport.lost > 0, excB):
                return "[%s] parser state depends on chunking at cut %d: %r vs %r" % (
                    how, inp["cut"], (rcvA.state, len(rcvA.buf), rcvA.next_receive_nonce, excA), (rcvB.state, len(rcvB.buf), rcvB.next_receive_nonce, excB))
            if gotA != pts[:len(gotA)]:
                return "[%s] delivered %r is not a prefix of sent %r" % (how, gotA, pts)
            if not len(inp["tail"]) and (len(gotA) != len(pts) or rcvA.state != "records"):
                return "[%s] honest stream not fully delivered: %r of %r, state %r" % (how, gotA, pts, rcvA.state)
        return None


def clone_receiver(c):
    """a second Connection in exactly the same post-negotiation state (same owner, same boxes)"""
    clock = Clock()
    d = mk_conn(c.owner, clock)
    d.state = c.state
    d.buf = c.buf
    d.send_box, d.receive_box = c.send_box, c.receive_box
    d.send_nonce, d.next_receive_nonce = c.send_nonce, c.next_receive_nonce
    d._negotiation_d = None
    return d




# ---------------------------------------------------------------------- records of any size (ropes)
class BigRecords(Job):
    """two honest records whose LENGTHS are solver variables (0 <= len < 2**32 - 40, payloads opaque ropes): the real send_record frames them, the real
    receiver gets the stream whole and, independently, split in two at a solver-chosen byte; both deliver exactly the two payloads, in order, and end in
    the same parser state.  Covers the 4-byte length arithmetic and the slicing of dataReceivedRECORDS for every record size incl. 64 KiB and beyond."""
    functions = ["transit.Connection.send_record", "Connection.dataReceived/_dataReceived/dataReceivedRECORDS/_decrypt_record/recordReceived"]
    shadows = ["transit.len (rope length as z3 Int)", "transit.unhexlify / f\"{n:08x}\" (paired big-endian view)", "transit.hexlify/int", "transit.SecretBox (ideal AEAD over ropes)",
               "transit.isinstance (a rope counts as bytes)", "transit.log"]

    def __init__(self, direction, tail):
        self.direction, self.tail = direction, tail
        self.name = "big_records_%s_t%d" % (direction, tail)
        self.bounds = dict(records=2, record_length="any integer 0 <= n < 2**32 - 40 each (symbolic)", split="one cut at any byte offset of the stream (symbolic)",
                           arbitrary_tail_bytes=tail, direction=direction)
        self.must_reach = ("nt:delivered",)

    def scenario(self):
        from symrun.rope import SymRope, Blob, sym_len
        from env.box import make_rope_box_class
        world = BoxWorld()
        with loader.shadow((T, "hexlify", sym_hexlify), (T, "int", sym_int), (T, "isinstance", V.sym_isinstance), (T, "SecretBox", make_rope_box_class(world)),
                           (T, "log", LogRec()), (T, "len", sym_len), (T, "unhexlify", V.sym_unhexlify)):
            cs, cr = build_pair()
            snd, rcv = (cs, cr) if self.direction == "s2r" else (cr, cs)
            lens = [fresh_int("len%d" % i, 0, 2 ** 32 - 40) for i in range(2)]
            eng().inputs.update(len0=lens[0], len1=lens[1])
            pts = [SymRope.of_blob(Blob("pt%d" % i, L.t)) for i, L in enumerate(lens)]
            for p in pts:
                snd.send_record(p)
            stream = SymRope([])
            for w in snd.transport.take():
                stream = stream + w
            if self.tail:
                tl = fresh_bytes("tail", self.tail)
                eng().inputs["tail"] = tl
                stream = stream + tl
            total = stream.sym_len()
            cut = fresh_int("cut", 0)
            eng().assume((cut <= total).t if hasattr(cut <= total, "t") else z3.BoolVal(bool(cut <= total)))
            eng().inputs["cut"] = cut
            rcvB = clone_receiver(rcv)
            gotA, gotB = [], []
            rcv.recordReceived = gotA.append
            rcvB.recordReceived = gotB.append
            excA = feed(rcv, [stream])
            excB = feed(rcvB, [stream[:cut], stream[cut:]])
            check(len(gotA) == len(gotB), "number of delivered records depends on chunking")
            for x, y in zip(gotA, gotB):
                check(SymRope.lift(x).eq(y), "delivered record depends on chunking")
            check(excA == excB and rcv.state == rcvB.state and (rcv.transport.lost > 0) == (rcvB.transport.lost > 0), "connection verdict depends on chunking")
            check(rcv.next_receive_nonce == rcvB.next_receive_nonce, "nonce counter depends on chunking")
            bufA, bufB = SymRope.lift(rcv.buf), SymRope.lift(rcvB.buf)
            check(bufA.eq(bufB), "reassembly buffer depends on chunking")
            k = len(gotA)
            for x, p in zip(gotA, pts):
                check(SymRope.lift(x).eq(p), "a delivered record is not the record sent")
            if not self.tail:
                check(k == 2 and rcv.state == "records" and not rcv.transport.lost, "honest records of these sizes were not both delivered")
            else:
                check(k >= 2 or rcv.transport.lost > 0 or True, "x")
                check(k <= 2 or False, "more records delivered than sent")
            if k == 2:
                eng().note("nt:delivered")

    def key(self, inp, label):
        return label.split(":")[0]

    def replay(self, inp, label):
        L = [inp["len0"], inp["len1"]]
        if sum(L) > (1 << 26):
            return None         # a model with huge records cannot be replayed in memory: non-reproducing -> reported as a harness error, never as a pass
        for ideal in (False,):
            cs, cr = build_pair()
            snd, rcv = (cs, cr) if self.direction == "s2r" else (cr, cs)
            pts = [bytes([0x41 + i]) * n for i, n in enumerate(L)]
            for p in pts:
                snd.send_record(p)
            stream = b"".join(bytes(x) for x in snd.transport.take()) + bytes(inp.get("tail", b""))
            cut = min(inp["cut"], len(stream))
            rcvB = clone_receiver(rcv)
            gotA, gotB = [], []
            rcv.recordReceived = gotA.append
            rcvB.recordReceived = gotB.append
            excA = feed(rcv, [stream])
            excB = feed(rcvB, [stream[:cut], stream[cut:]])
            if gotA != gotB or (rcv.state, bytes(rcv.buf), rcv.next_receive_nonce, excA) != (rcvB.state, bytes(rcvB.buf), rcvB.next_receive_nonce, excB):
                return "records of %r bytes, cut at %d: whole delivery gives %d records (%s), split delivery %d (%s)" % (L, cut, len(gotA), rcv.state, len(gotB), rcvB.state)
            if gotA != pts[:len(gotA)] or (not inp.get("tail") and len(gotA) != 2):
                return "records of %r bytes: delivered %r" % (L, [len(x) for x in gotA])
        return None


# ---------------------------------------------------------------------- read modes
@implementer(interfaces.IConsumer)
class RecConsumer:
    def __init__(self, log):
        self.log = log
        self.producer = None

    def registerProducer(self, p, streaming):
        self.producer = p

    def unregisterProducer(self):
        self.producer = None

    def write(self, data):
        self.log.append(("c", data))


class ReadModes(Job):
    """honest records delivered while the application switches between receive_record() and consumer mode: a solver-chosen schedule of k operations
    (feed one frame / feed the rest / read / attach a consumer with a symbolic `expected` byte count or none / detach), then everything outstanding is
    fed and read.  Every record reaches exactly one sink, and the sequence of deliveries over time is exactly the sequence sent."""
    functions = ["transit.Connection.recordReceived/receive_record/_deliverRecords", "Connection.connectConsumer/_writeToConsumer/disconnectConsumer",
                 "Connection.dataReceived/dataReceivedRECORDS/_decrypt_record/send_record"]
    shadows = ["transit.SecretBox (ideal AEAD, concrete ciphertexts)", "transit.log"]
    OPS = ("feed", "feedall", "read", "readloop", "attach", "attach-none", "detach")

    def __init__(self, lens, k, direction, first):
        self.lens, self.k, self.direction, self.first = lens, k, direction, first
        self.name = "read_modes_%s_%s_k%d_%s" % (direction, "-".join(map(str, lens)), k, first)
        self.bounds = dict(record_lengths=lens, schedule_ops=k, first_op=first, ops=list(self.OPS), expected="symbolic integer 0..total+1 per attach", direction=direction)
        self.must_reach = ("nt:all-delivered",)

    def run(self, script):
        symbolic = script is None
        world = BoxWorld(concrete=True)
        with loader.shadow((T, "SecretBox", make_box_class(world)), (T, "log", LogRec()), (T, "isinstance", V.sym_isinstance)):
            cs, cr = build_pair()
            snd, rcv = (cs, cr) if self.direction == "s2r" else (cr, cs)
            pts, frames = [], []
            for i, n in enumerate(self.lens):
                p = payload(i, n)
                pts.append(p)
                snd.send_record(p)
                w = snd.transport.take()
                frames.append(b"".join(bytes(x) for x in w))
            total = sum(self.lens)
            log = []          # deliveries in time order: ("c", record) consumer write / ("r", read index, record)
            nreads = [0]
            trace = []
            kicks = [0]

            loops = [0]
            escaped = []

            def read(loop=False):
                i = nreads[0]
                nreads[0] += 1

                def cb(r, i=i):
                    log.append(("r", i, r))
                    if loop and loops[0] > 0:
                        # a reader loop (`while True: rec = yield conn.receive_record()`): the next read is issued from inside the callback
                        loops[0] -= 1
                        read(loop=True)
                rcv.receive_record().addCallbacks(cb, lambda f: None)

            def enabled():
                ops = []
                if frames:
                    ops += ["feed", "feedall"]
                ops.append("read")
                if not loops[0] and "readloop" not in trace:
                    ops.append("readloop")
                if rcv._consumer is None:
                    ops += ["attach", "attach-none"]
                elif rcv._consumer_bytes_expected is None:
                    ops.append("detach")
                return ops

            def do(op, j):
                if op == "feed":
                    exc = feed(rcv, [frames.pop(0)])
                    if exc:
                        escaped.append(exc)
                elif op == "feedall":
                    data = b"".join(frames)
                    del frames[:]
                    exc = feed(rcv, [data])
                    if exc:
                        escaped.append(exc)
                elif op == "read":
                    read()
                elif op == "readloop":
                    loops[0] = len(pts)
                    read(loop=True)
                elif op == "attach":
                    if symbolic:
                        E = fresh_int("expected%d" % j, 0, total + 2)
                        eng().inputs["expected%d" % j] = E
                    else:
                        E = script["expected%d" % j]
                    zero = bool(E == 0)
                    before = len(log)
                    rcv.connectConsumer(RecConsumer(log), expected=E)
                    if zero:
                        # documented kick: an empty write to let a zero-byte consumer finish
                        if len(log) > before and log[before] == ("c", b""):
                            del log[before]
                            kicks[0] += 1
                elif op == "attach-none":
                    rcv.connectConsumer(RecConsumer(log), expected=None)
                elif op == "detach":
                    rcv.disconnectConsumer()

            def problems():
                if escaped:
                    return "%s escaped dataReceived on an honest stream" % escaped[0]
                recs = [e[-1] for e in log]
                if recs != pts[:len(recs)]:
                    return "deliveries over time %r are not a prefix of the records sent %r" % (recs, pts)
                ridx = [e[1] for e in log if e[0] == "r"]
                if ridx != sorted(ridx) or len(set(ridx)) != len(ridx):
                    return "receive_record() results fired out of call order: %r" % (ridx,)
                return None

            for j in range(self.k):
                ops = enabled()
                if j == 0:
                    if self.first not in ops:
                        if symbolic:
                            raise core._Abort()
                        return None
                    op = self.first
                elif symbolic:
                    op = ops[eng().choose(len(ops), "op%d" % j)]
                else:
                    op = script["ops"][j] if j < len(script["ops"]) else None
                    if op not in ops:
                        return None
                trace.append(op)
                if symbolic:
                    eng().inputs["ops"] = list(trace)
                do(op, j)
                p = problems()
                if p:
                    return p
            # completion: feed the rest, detach an open-ended consumer, read until every record has been seen
            if frames:
                do("feedall", -1)
            if rcv._consumer is not None and rcv._consumer_bytes_expected is None:
                do("detach", -1)
            for _ in range(len(pts)):
                read()
            p = problems()
            if p:
                return p
            recs = [e[-1] for e in log]
            if rcv._consumer is None and recs != pts:
                return "not every record was delivered: %r of %r (state %s)" % (recs, pts, rcv.state)
            if rcv._consumer is not None and len(recs) + len(rcv._inbound_records) != len(pts):
                return "records lost while a consumer is attached"
            if rcv.state != "records" or rcv.transport.lost:
                return "honest stream dropped the connection"
            return None

    def scenario(self):
        p = self.run(None)
        check(p is None, p or "")
        eng().note("nt:all-delivered")

    def key(self, inp, label):
        return label.split(":")[0].split(" [")[0][:60]

    def replay(self, inp, label):
        return self.run(dict(inp))


# ---------------------------------------------------------------------- manipulation
KINDS = ["flip", "delete", "duplicate", "swap", "replay_earlier", "truncate", "inject", "reflect", "extend"]


class Tamper(Job):
    functions = Chunking.functions + ["Connection.connectionLost", "Connection.connectConsumer/_writeToConsumer",
                                      "Common._sender_record_key/_receiver_record_key"]
    shadows = SHADOWS

    def __init__(self, kind, lens, direction, mode):
        self.kind, self.lens, self.direction, self.mode = kind, lens, direction, mode
        self.name = "tamper_%s_%s_%s_%s" % (kind, direction, mode, "-".join(map(str, lens)))
        self.bounds = dict(kind=kind, record_lengths=lens, direction=direction, receive_mode=mode,
                           positions="every byte position / record index (symbolic)", values="every substituted byte value")
        self.must_reach = ("nt:dropped",) if kind not in ("truncate",) else ("nt:stalled",)

    def setup(self, world):
        cs, cr = build_pair()
        snd, rcv = (cs, cr) if self.direction == "s2r" else (cr, cs)
        pts, frames = [], []
        for i, n in enumerate(self.lens):
            p = payload(i, n)
            pts.append(p)
            snd.send_record(p)
            frames.append(cat(snd.transport.take()))
        # the receiver's own outbound record (for reflection) and a record from an unrelated key holder
        rcv.send_record(payload(9, self.lens[0]))
        own = cat(rcv.transport.take())
        return snd, rcv, pts, frames, own

    def manipulate(self, frames, own, I):
        """returns (stream, idx) : idx = index of the first record that is not delivered intact/in place"""
        k = self.kind
        n = len(frames)
        if k == "flip":
            ridx = I["ridx"]
            start = sum(len(f) for f in frames[:ridx])
            end = start + len(frames[ridx])
            whole = cat(frames)
            pos, x = I["pos"], I["x"]
            if isinstance(pos, SymInt):
                eng().assume(z3.And(pos.t >= start, pos.t < end))
                el = []
                orig = z3.IntVal(0)
                for i, e in enumerate(whole.e):
                    ez = zbyte(e)
                    el.append(z3.If(pos.t == i, x.t, ez) if start <= i < end else e)
                    if start <= i < end:
                        orig = z3.If(pos.t == i, ez, orig)
                eng().assume(x.t != orig)
                return SymBytes(el), ridx
            el = list(whole)
            if not (start <= pos < end):
                return None, None
            if el[pos] == x:
                x = (x + 1) % 256
            el[pos] = x
            return bytes(el), ridx
        i = I["ridx"]
        if k == "delete":
            if i >= n - 1 and n > 1 and False:
                pass
            fr = frames[:i] + frames[i + 1:]
            if i == n - 1:
                return None, None     # deleting the last record is indistinguishable from not having sent it yet
            return cat(fr), i
        if k == "duplicate":
            return cat(frames[:i + 1] + [frames[i]] + frames[i + 1:]), i + 1
        if k == "swap":
            if i + 1 >= n:
                return None, None
            fr = list(frames)
            fr[i], fr[i + 1] = fr[i + 1], fr[i]
            return cat(fr), i
        if k == "replay_earlier":
            j = I["j"]
            if not (j < i):
                return None, None
            return cat(frames[:i] + [frames[j]] + frames[i:]), i
        if k == "truncate":
            t = I["t"]
            whole = cat(frames)
            start = sum(len(f) for f in frames[:i])
            if not (0 < t < len(frames[i])):
                return None, None
            return whole[:start + t], i
        if k == "inject":
            # a well-framed record from someone without the key: length prefix correct, nonce as expected, body arbitrary
            body = I["body"]
            L = len(body) + 24
            frame = SymBytes(list(L.to_bytes(4, "big"))) + SymBytes(list(i.to_bytes(24, "big"))) + body \
                if isinstance(body, SymBytes) else L.to_bytes(4, "big") + i.to_bytes(24, "big") + body
            for f in frames + [own]:
                # "someone without the key": not a copy of an honest frame (copies are the duplicate/replay/reflect kinds)
                if len(f) == len(frame):
                    if isinstance(frame, SymBytes) and core.active():
                        eng().assume(sym_not(frame == f).t if isinstance(sym_not(frame == f), SymBool) else sym_not(frame == f))
                    elif (f.concrete() if isinstance(f, SymBytes) else f) == frame:
                        return None, None
            return cat(frames[:i] + [frame] + frames[i:]), i
        if k == "reflect":
            if i != 0 and False:
                pass
            return cat(frames[:i] + [own] + frames[i:]), i
        if k == "extend":
            # append arbitrary bytes inside the length-prefixed frame (prefix adjusted by the attacker)
            extra = I["body"]
            f = frames[i]
            L = len(f) - 4 + len(extra)
            nf = SymBytes(list(L.to_bytes(4, "big"))) + f[4:] + extra
            return cat(frames[:i] + [nf] + frames[i + 1:]), i
        raise AssertionError(k)

    def sym_inputs(self, frames):
        I = {}
        n = len(frames)
        I["ridx"] = eng().choose(n + (1 if self.kind in ("inject", "reflect") else 0), "ridx")
        if self.kind == "flip":
            total = sum(len(f) for f in frames)
            I["pos"] = fresh_int("pos", 0, total)
            I["x"] = fresh_int("x", 0, 256)
        if self.kind == "replay_earlier":
            I["j"] = eng().choose(n, "j")
        if self.kind == "truncate":
            I["t"] = eng().choose(max(len(f) for f in frames), "t")
        if self.kind in ("inject", "extend"):
            nb = eng().choose(3, "bodylen")
            I["body"] = fresh_bytes("body", [16, 17, 1][nb] if self.kind == "inject" else [1, 2, 16][nb])
        return I

    def drive(self, rcv, stream, npts):
        """returns (delivered list, read results, exception name)"""
        got = []
        reads = []
        if self.mode == "reads":
            for _ in range(npts + 1):
                d = rcv.receive_record()
                slot = []
                d.addCallbacks(lambda r, s=slot: s.append(("ok", r)), lambda f, s=slot: s.append(("err", f.type.__name__)))
                reads.append(slot)
        else:
            class Cons:
                def __init__(s):
                    s.w = []

                def registerProducer(s, p, streaming):
                    pass

                def unregisterProducer(s):
                    pass

                def write(s, b):
                    s.w.append(b)
            cons = Cons()
            total = sum(self.lens)
            cd = rcv.connectConsumer(cons, expected=total if total else None)
            slot = []
            if cd is not None:
                cd.addCallbacks(lambda r, s=slot: s.append(("ok", r)), lambda f, s=slot: s.append(("err", f.type.__name__)))
            reads.append(slot)
            got = cons.w
        exc = feed(rcv, [stream])
        if self.mode == "reads":
            got = [s[0][1] for s in reads if s and s[0][0] == "ok"]
        return got, reads, exc

    def scenario(self):
        world = BoxWorld()
        with shadows(world):
            snd, rcv, pts, frames, own = self.setup(world)
            I = self.sym_inputs(frames)
            eng().inputs.update(I)
            stream, idx = self.manipulate(frames, own, I)
            if stream is None:
                raise core._Abort()
            got, reads, exc = self.drive(rcv, stream, len(pts))
            # (1) nothing but the intact prefix is ever surfaced
            k = len(got)
            check(k <= idx, "a record at or after the manipulation point was delivered")
            check(got == pts[:k], "delivered records are not the sent prefix")
            check(k == idx, "records before the manipulation point were withheld")
            dropped = rcv.transport.lost > 0 and rcv.state == "hung up"
            stalled = (not rcv.transport.lost) and rcv.state == "records" and len(rcv.buf) > 0
            check(dropped or stalled, "connection neither dropped nor stalled after manipulation")
            if self.kind in ("delete", "duplicate", "swap", "replay_earlier", "inject", "reflect", "extend"):
                check(dropped, "complete manipulated frame did not drop the connection")
            obs = (k, rcv.state, exc)
            # (2) later honest traffic is not delivered either
            before = len(got)
            if dropped:
                feed(rcv, [cat(frames)])
                if self.mode == "reads":
                    got2 = [s[0][1] for s in reads if s and s[0][0] == "ok"]
                else:
                    got2 = got
                check(len(got2) == before, "records delivered after the connection was dropped")
            # (3) pending reads fail when the connection goes away
            rcv.connectionLost(None)
            if self.mode == "reads":
                for s in reads[k:] if dropped else []:
                    check(bool(s) and s[0] == ("err", "ConnectionClosed"), "pending read did not fail")
            else:
                total = sum(self.lens)
                if total and sum(len(p) for p in pts[:idx]) < total and dropped:
                    check(bool(reads[0]) and reads[0][0][0] == "err", "consumer Deferred did not fail")
            eng().note("nt:dropped" if dropped else "nt:stalled")
            return obs

    def _concrete(self, inp, ideal):
        world = BoxWorld({k: v for k, v in inp.items() if k.startswith("box")})
        ctx = loader.shadow((T, "SecretBox", make_box_class(world))) if ideal else loader.shadow()
        with ctx:
            snd, rcv, pts, frames, own = self.setup(world)
            frames = [f.concrete() if isinstance(f, SymBytes) else f for f in frames]
            own = own.concrete() if isinstance(own, SymBytes) else own
            I = {k: v for k, v in inp.items() if not k.startswith("box")}
            stream, idx = self.manipulate(frames, own, I)
            if stream is None:
                return None
            stream = stream.concrete() if isinstance(stream, SymBytes) else stream
            got, reads, exc = self.drive(rcv, stream, len(pts))
            dropped = rcv.transport.lost > 0 and rcv.state == "hung up"
            stalled = (not rcv.transport.lost) and rcv.state == "records" and len(rcv.buf) > 0
            state = rcv.state
            got = list(got)
            before = len(got)
            later = 0
            if dropped:
                feed(rcv, [b"".join(frames)])
                got2 = [s[0][1] for s in reads if s and s[0][0] == "ok"] if self.mode == "reads" else rcv_cons_len(got, reads)
                later = (len(got2) if isinstance(got2, list) else got2) - before
            rcv.connectionLost(None)
        return dict(got=got, idx=idx, pts=pts, dropped=dropped, stalled=stalled, later=later,
                    reads=reads, state=state, exc=exc)

    def validate(self, inp, observed):
        with loader.shadow((T, "log", LogRec())):
            r = self._concrete(inp, True)
        if r is None:
            return "concrete run has no manipulation for %r" % (inp,)
        obs = (len(r["got"]), r["state"], r["exc"])
        if tuple(observed) != obs:
            return "symbolic %r vs concrete %r on %r" % (observed, obs, {k: v for k, v in inp.items() if not k.startswith("box")})

    def replay(self, inp, label):
        for ideal in (False, True):
            how = "ideal AEAD stub" if ideal else "real NaCl SecretBox"
            try:
                r = self._concrete(inp, ideal)
            except Exception as e:
                return "[%s] harness could not replay: %r" % (how, e)
            if r is None:
                continue
            k = len(r["got"])
            desc = "%s at record %d of %r (%s)" % (self.kind, r["idx"], self.lens, {a: b for a, b in inp.items() if not a.startswith("box") and a != "body"})
            if r["got"] != r["pts"][:k] or k > r["idx"]:
                return "[%s] %s: delivered %r, sent %r" % (how, desc, r["got"], r["pts"])
            if k < r["idx"]:
                return "[%s] %s: only %d of the %d intact records before the manipulation were delivered" % (how, desc, k, r["idx"])
            if not (r["dropped"] or r["stalled"]):
                return "[%s] %s: connection neither dropped nor stalled (state %r)" % (how, desc, r["state"])
            if self.kind in ("delete", "duplicate", "swap", "replay_earlier", "inject", "reflect", "extend") and not r["dropped"]:
                return "[%s] %s: connection not dropped (state %r)" % (how, desc, r["state"])
            if r["dropped"] and r["later"]:
                return "[%s] %s: %d records delivered after the drop" % (how, desc, r["later"])
            if self.mode == "reads" and r["dropped"]:
                for s in r["reads"][k:]:
                    if not (s and s[0] == ("err", "ConnectionClosed")):
                        return "[%s] %s: pending read did not fail: %r" % (how, desc, s)
            if self.mode != "reads" and r["dropped"]:
                total = sum(self.lens)
                if total and sum(len(p) for p in r["pts"][:r["idx"]]) < total and not (r["reads"][0] and r["reads"][0][0][0] == "err"):
                    return "[%s] %s: the connection is gone but the pending consumer (writeToFile) Deferred did not fail: %r" % (how, desc, r["reads"][0])
        return None


def rcv_cons_len(got, reads):
    return len(got)


class KeyDirections(Job):
    """HKDF purposes: each end's send key is the other end's receive key and differs from its own receive key.
    HKDF is an uninterpreted injective function (z3) applied to the CTXinfo literals the real code passes."""
    name = "key_directions"
    functions = ["Common._sender_record_key", "Common._receiver_record_key", "build_sender_handshake", "build_receiver_handshake",
                 "build_sided_relay_handshake"]
    shadows = ["transit.HKDF (uninterpreted injective function)"]
    must_reach = ("nt:keys",)

    def scenario(self):
        calls = []
        H = z3.Function("HKDF", z3.IntSort(), z3.IntSort(), z3.IntSort())
        terms = []

        class Term:
            def __init__(self, key, ctx):
                self.args = (z3.IntVal(int.from_bytes(key, "big")), z3.IntVal(int.from_bytes(ctx, "big")))
                self.t = H(*self.args)
                # injectivity, instantiated for every pair of applications the code makes (quantifier-free)
                for o in terms:
                    eng().solver.add(z3.Implies(self.t == o.t, z3.And(self.args[0] == o.args[0], self.args[1] == o.args[1])))
                terms.append(self)

        def hk(skm, outlen, salt=None, CTXinfo=b""):
            calls.append(CTXinfo)
            return Term(skm, CTXinfo)

        clock = Clock()
        with loader.shadow((T, "HKDF", hk), (T, "hexlify", lambda x: x)):
            s = T.TransitSender(None, no_listen=True, reactor=clock)
            r = T.TransitReceiver(None, no_listen=True, reactor=clock)
            s._transit_key = KEY
            r._transit_key = KEY
            ss, sr, rs, rr = s._sender_record_key(), s._receiver_record_key(), r._sender_record_key(), r._receiver_record_key()
        check(SymBool(ss.t == rr.t), "sender's send key is not the receiver's receive key")
        check(SymBool(rs.t == sr.t), "receiver's send key is not the sender's receive key")
        check(SymBool(ss.t != sr.t), "one end uses the same key for both directions")
        check(SymBool(rs.t != rr.t), "one end uses the same key for both directions")
        eng().note("nt:keys")

    def replay(self, inp, label):
        clock = Clock()
        s = T.TransitSender(None, no_listen=True, reactor=clock)
        r = T.TransitReceiver(None, no_listen=True, reactor=clock)
        s._transit_key = KEY
        r._transit_key = KEY
        ss, sr, rs, rr = s._sender_record_key(), s._receiver_record_key(), r._sender_record_key(), r._receiver_record_key()
        if ss != rr or rs != sr:
            return "record keys do not pair up across the two ends"
        if ss == sr or rs == rr:
            return "an end uses one key for both directions"
        return None


def jobs(tier):
    thorough = tier == "thorough"
    J = [KeyDirections()]
    lens_sets = [[0, 1]] + ([[2, 0, 1]] if thorough else [])
    for lens in lens_sets:
        total = sum(44 + n for n in lens)
        for direction in ("s2r", "r2s"):
            for tail in ((0, 6) if thorough else (0, 5)):
                step = 12
                for lo in range(0, total + tail + 1, step):
                    J.append(Chunking(lens, tail, range(lo, min(lo + step, total + tail + 1)), direction))
    tl = [[1, 0, 2]] + ([[0, 1, 1, 3]] if thorough else [])
    for lens in tl:
        for kind in KINDS:
            for direction in ("s2r", "r2s"):
                for mode in ("reads", "consumer"):
                    if not thorough and mode == "consumer" and direction == "r2s":
                        continue
                    J.append(Tamper(kind, lens, direction, mode))
    for direction in ("s2r", "r2s"):
        for tail in ((0, 3) if thorough else (0,)):
            J.append(BigRecords(direction, tail))
    for direction in (("s2r", "r2s") if thorough else ("s2r",)):
        for first in ReadModes.OPS:
            if first == "detach":
                continue
            J.append(ReadModes([2, 1, 0, 3, 1] if thorough else [2, 1, 0, 3], 6 if thorough else 5, direction, first))
    return J


ASSUMPTIONS = [
    "NaCl SecretBox replaced by the ideal AEAD env/box.py during symbolic runs: decrypt succeeds iff given exactly an honest ciphertext made under the same key (counterexamples are replayed with the real SecretBox first, then with the stub)",
    "int(hexlify(b), 16) modelled as the big-endian value of b (linear arithmetic), validated per path against the real functions",
    "an exception escaping dataReceived is logged by Twisted's reactor, which then drops the connection (the code under test has already called loseConnection)",
    "a manipulation that enlarges a 4-byte length prefix makes a length-prefixed parser wait for bytes that never come: 'stalled with nothing delivered' is accepted for flip/truncate, pending reads fail at connectionLost",
    "record sizes: small concrete ones for the byte-level jobs; job big_records_* makes the two record LENGTHS solver variables (any size below 2**32-40, payloads opaque ropes), "
    "so framing/length arithmetic/slicing are decided for every size incl. 64 KiB+; records of 2**32-40 bytes and more make send_record raise (9 hex digits) and are outside",
    "payload contents are concrete (the code never inspects them)",
]

if __name__ == "__main__":
    sys.exit(common.main("C06", "harness.c06", level="other", extra_assumptions=ASSUMPTIONS,
                         trusted_base=["env/box.py ideal AEAD contract", "symrun/loader.py AST call-site pass"],
                         explanation="bounded symbolic execution (symrun + z3) of the real transit.Connection record layer between two really-negotiated "
                                     "Connections: two-chunk equivalence on outputs and full parser state for honest records followed by arbitrary bytes "
                                     "(=> any chunking), and nine manipulation kinds with symbolic position/value/record index in both directions and both receive modes"))
