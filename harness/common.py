"""Shared runner: jobs -> worker processes -> verdict, evidence, replay files, exit codes.

Exit codes: 0 = property held on everything explored (known findings are printed),
            1 = VIOLATION (only after the counterexample was replayed on the real code),
            2 = INCONCLUSIVE / harness error (never success, never a violation).
"""
import os
import sys
import json
import time
import hashlib
import traceback
import multiprocessing as mp

VERIF = os.path.dirname(os.path.dirname(os.path.abspath(__file__)))
REPO = os.environ.get("VERIF_REPO", "/repo")
# evidence and replay files describe /repo itself: a run against another tree (a scratch worktree with a seeded change) writes them elsewhere
OUT = VERIF if os.path.realpath(REPO) == "/repo" else os.path.join("/tmp", "verif-scratch-out", os.path.basename(os.path.normpath(REPO)))
sys.path.insert(0, VERIF)

from symrun import core  # noqa: E402
from symrun.values import concretise  # noqa: E402


def jsonable(x):
    if isinstance(x, (bytes, bytearray)):
        return {"__bytes__": bytes(x).hex()}
    if isinstance(x, dict):
        return {str(k) if not isinstance(k, str) else k: jsonable(v) for k, v in x.items()}
    if isinstance(x, (list, tuple)):
        return [jsonable(v) for v in x]
    if isinstance(x, (str, int, float, bool)) or x is None:
        return x
    return repr(x)


def unjson(x):
    if isinstance(x, dict):
        if set(x.keys()) == {"__bytes__"}:
            return bytes.fromhex(x["__bytes__"])
        return {k: unjson(v) for k, v in x.items()}
    if isinstance(x, list):
        return [unjson(v) for v in x]
    return x


class Job:
    """One unit of symbolic exploration.

    scenario():   runs the real code on symbolic inputs (registered in eng().inputs),
                  states obligations through check()/eng().prove(), notes outcome classes.
    replay(inp):  runs the same scenario concretely on the un-shadowed real code and returns
                  a string describing the user-visible violation, or None if none shows.
    key(inp, label): classification used to match known findings.
    must_reach:   outcome classes that must be reached by at least one feasible path
                  (vacuity witnesses: each is a solver-confirmed satisfiable path condition).
    """
    name = "job"
    must_reach = ()
    functions = ()      # real functions executed symbolically (for the evidence)
    shadows = ()        # names shadowed in repo module namespaces
    bounds = {}
    max_paths = None

    def scenario(self):
        raise NotImplementedError

    def replay(self, inp, label):
        raise NotImplementedError

    def key(self, inp, label):
        return label

    def validate(self, inp, observed):
        """optional per-path check of the symbolic encoding against a concrete run"""
        return None


class Violation:
    def __init__(self, job, label, inputs, detail=None):
        self.job = job
        self.label = label
        self.inputs = inputs
        self.detail = detail


def check(cond, label):
    """Obligation inside a scenario.  A failing obligation is recorded (with a model) and the
    path continues under the assumption that it held, so that one defect cannot mask another."""
    e = core.eng()
    try:
        e.prove(cond, label)
    except core.Counterexample as c:
        inp = {k: concretise(v, c.model) for k, v in e.inputs.items()} if c.model is not None else {}
        e.violations.append((label, inp))
        e.stats.violations.append((label, inp))
        if len(e.stats.violations) > 200:
            raise core.Inconclusive("more than 200 counterexamples in one job; exploration stopped") if False else core._Abort()
        from symrun.values import SymBool
        if isinstance(cond, bool):
            raise core._Abort()
        e.assume(cond.t if isinstance(cond, SymBool) else cond)


def _run_job(args):
    modname, jobname, tier, seed, budget_s = args
    import importlib
    try:
        import faulthandler
        import signal as _sig
        faulthandler.register(_sig.SIGUSR1, all_threads=True)       # `kill -USR1 <worker pid>` prints where a worker is
    except Exception:
        pass
    t0 = time.time()
    out = dict(job=jobname, violations=[], inconclusive=None, stats=None, validated=0, wall_s=0.0)
    try:
        mod = importlib.import_module(modname)
        job = [j for j in mod.jobs(tier) if j.name == jobname][0]
        stats = core.Stats()
        viols = []
        nval = [0]

        def on_path(e, res):
            if e.violations:
                return
            # per-path validation of the encoding on a model of the path condition
            if job.validate.__func__ is not Job.validate and (stats.paths <= 40 or stats.paths % 23 == 0):
                ok, m = e._check()
                if ok:
                    inp = {k: concretise(v, m) for k, v in e.inputs.items()}
                    obs = concretise(res, m)
                    saved, core.ENG = core.ENG, None   # the concrete re-run must not see an active engine
                    try:
                        msg = job.validate(inp, obs)
                    finally:
                        core.ENG = saved
                    nval[0] += 1
                    if msg:
                        raise core.Inconclusive("encoding validation failed in %s: %s" % (jobname, msg))
            if len(stats.samples) < 3:
                ok, m = e._check()
                if ok:
                    inp = {k: concretise(v, m) for k, v in e.inputs.items()}
                    stats.samples.append(dict(job=jobname, outcome=list(e.notes), decisions=len(e.trail),
                                              model=jsonable(inp)))

        deadline = t0 + budget_s if budget_s else None
        core.explore(job.scenario, stats=stats, seed=seed, max_paths=job.max_paths,
                     on_path=on_path, deadline=deadline)
        viols = stats.violations
        stalled = [o for o in stats.outcomes if o.startswith("canonical-stalled")]
        if stalled and not viols:
            out["inconclusive"] = "vacuity: " + stalled[0]
        missing = [o for o in job.must_reach if stats.outcomes.get(o, 0) == 0]
        if missing and not viols:
            out["inconclusive"] = "vacuity: outcome classes never reached: %s" % missing
        # keep one counterexample per classification key (so that one frequent failure cannot crowd out another)
        bykey = {}
        for l, i in viols:
            try:
                k = job.key(i, l)
            except Exception:
                k = l
            if k not in bykey and len(bykey) < 40:
                bykey[k] = (l, jsonable(i))
        out["violations"] = list(bykey.values())
        out["stats"] = stats
        out["validated"] = nval[0]
    except core.Inconclusive as e:
        out["inconclusive"] = "Inconclusive: %s" % (e,)
        out["stats"] = locals().get("stats")
    except core.Escape as e:
        out["inconclusive"] = "Escape: %s\n%s" % (e, traceback.format_exc(limit=8))
        out["stats"] = locals().get("stats")
    except BaseException as e:  # harness error
        out["inconclusive"] = "harness error: %r\n%s" % (e, traceback.format_exc(limit=12))
        out["stats"] = locals().get("stats")
    out["wall_s"] = time.time() - t0
    return out


def load_known(prop):
    p = os.path.join(VERIF, "known_findings.json")
    if not os.path.exists(p):
        return []
    with open(p) as f:
        data = json.load(f)
    return [e for e in data.get("findings", []) if e.get("property") == prop]


def main(prop, modname, level="other", argv=None, extra_assumptions=(), trusted_base=(), explanation=""):
    import argparse
    import importlib
    ap = argparse.ArgumentParser()
    ap.add_argument("--tier", default=os.environ.get("VERIF_TIER", "quick"))
    ap.add_argument("--replay", default=None)
    ap.add_argument("--replay-batch", default=None, help=argparse.SUPPRESS)
    ap.add_argument("--jobs", default=None, help="comma separated job-name filter")
    ap.add_argument("-j", type=int, default=int(os.environ.get("VERIF_PROCS", "16")))
    ap.add_argument("--budget", type=float, default=0)
    a = ap.parse_args(argv)
    tier = a.tier if a.tier in ("quick", "thorough") else "quick"
    seed = int(os.environ.get("VERIF_SEED", "0") or 0)
    mod = importlib.import_module(modname)

    if a.replay_batch:
        with open(a.replay_batch) as f:
            batch = json.load(f)
        alljobs = {j.name: j for t in ("thorough", "quick") for j in mod.jobs(t)}
        import signal

        class _ReplayTimeout(BaseException):
            pass

        def _onalarm(signum, frame):
            raise _ReplayTimeout()
        signal.signal(signal.SIGALRM, _onalarm)
        limit = float(os.environ.get("VERIF_REPLAY_TIMEOUT", "45"))
        for i, (jn, label, inp) in enumerate(batch):
            try:
                signal.setitimer(signal.ITIMER_REAL, limit, 1.0)
                try:
                    msg = alljobs[jn].replay(unjson(inp), label)
                finally:
                    signal.setitimer(signal.ITIMER_REAL, 0)
                print("REPLAY-RESULT %d %s" % (i, json.dumps(dict(msg=msg))), flush=True)
            except _ReplayTimeout:
                # the un-instrumented code does not come back on this concrete input: that is a reproduced misbehaviour (a hang), not a harness problem
                print("REPLAY-RESULT %d %s" % (i, json.dumps(dict(msg="the real code did not return within %.0f s on this input (hang): %s" % (limit, json.dumps(inp)[:300])))), flush=True)
            except BaseException as e:
                print("REPLAY-RESULT %d %s" % (i, json.dumps(dict(error=repr(e)))), flush=True)
        return 0
    if a.replay and os.environ.get("SYMRUN_PLAIN") != "1":
        # replays always run in a fresh interpreter on the un-instrumented code (no import hook, no shadows)
        import subprocess
        env = dict(os.environ, SYMRUN_PLAIN="1")
        return subprocess.call([sys.executable, "-m", modname, "--replay", a.replay], env=env)
    if a.replay:
        with open(a.replay) as f:
            r = json.load(f)
        job = [j for j in mod.jobs(r.get("tier", "thorough")) if j.name == r["job"]]
        if not job:
            job = [j for j in mod.jobs("thorough") if j.name == r["job"]]
        msg = job[0].replay(unjson(r["inputs"]), r["label"])
        if msg:
            print("REPRODUCED property=%s job=%s: %s" % (prop, r["job"], msg))
            return 1
        print("not reproduced")
        return 0

    t0 = time.time()
    jobs = mod.jobs(tier)
    if a.jobs:
        want = set(a.jobs.split(","))
        jobs = [j for j in jobs if j.name in want or any(w2.endswith("*") and j.name.startswith(w2[:-1]) for w2 in want)]
    args = [(modname, j.name, tier, seed, a.budget) for j in jobs]
    results = []
    if a.j <= 1 or len(args) == 1:
        results = [_run_job(x) for x in args]
    else:
        ctx = mp.get_context("fork")
        with ctx.Pool(min(a.j, len(args)), maxtasksperchild=1) as pool:
            results = list(pool.imap_unordered(_run_job, args, chunksize=1))
    results.sort(key=lambda r: [j.name for j in jobs].index(r["job"]))

    total = core.Stats()
    inconclusive = []
    per_job = {}
    raw_viol = []
    validated = 0
    for r in results:
        if r["stats"] is not None:
            total.merge(r["stats"])
            per_job[r["job"]] = dict(r["stats"].as_dict(), wall_s=round(r["wall_s"], 2))
        if r["inconclusive"]:
            inconclusive.append("%s: %s" % (r["job"], r["inconclusive"]))
        validated += r["validated"]
        for (label, inp) in r["violations"]:
            raw_viol.append((r["job"], label, inp))

    # classify counterexamples: known finding / replayed violation / non-reproducing (harness error)
    known = load_known(prop)
    known_keys = {e["key"]: e for e in known if e.get("status") == "known"}
    jobmap = {j.name: j for j in jobs}
    seen_keys = set()
    confirmed = []
    known_hit = {}
    nonrepro = []
    os.makedirs(os.path.join(OUT, "replays"), exist_ok=True)
    cands = []
    for (jn, label, inp) in raw_viol:
        job = jobmap[jn]
        try:
            key = job.key(unjson(inp), label)
        except Exception:
            key = "%s:%s" % (jn, label)
        if key in seen_keys:
            continue
        seen_keys.add(key)
        cands.append((jn, label, inp, key))
        if len(cands) >= 40:
            break
    replies = {}
    if cands:
        import subprocess
        bpath = os.path.join(OUT, "replays", "%s-batch-%d.json" % (prop, os.getpid()))
        with open(bpath, "w") as f:
            json.dump([(jn, label, inp) for (jn, label, inp, key) in cands], f)
        env = dict(os.environ, SYMRUN_PLAIN="1")
        try:
            pr = subprocess.run([sys.executable, "-m", modname, "--replay-batch", bpath], env=env,
                                capture_output=True, text=True, timeout=3600)
            for line in pr.stdout.splitlines():
                if line.startswith("REPLAY-RESULT "):
                    _, idx, js = line.split(" ", 2)
                    replies[int(idx)] = json.loads(js)
            if pr.returncode != 0:
                nonrepro.append("replay subprocess failed: %s" % pr.stderr[-400:])
        except subprocess.TimeoutExpired:
            nonrepro.append("replay subprocess timed out")
        os.unlink(bpath)
    for i, (jn, label, inp, key) in enumerate(cands):
        rep = replies.get(i)
        if rep is None:
            nonrepro.append("%s/%s: no replay result" % (jn, label))
            continue
        if "error" in rep:
            nonrepro.append("%s/%s: replay raised %s" % (jn, label, rep["error"]))
            continue
        msg = rep["msg"]
        if not msg:
            nonrepro.append("%s/%s: counterexample did not reproduce on the real code: %s" % (jn, label, json.dumps(inp)[:300]))
            continue
        if key in known_keys:
            known_hit[key] = msg
            continue
        h = hashlib.sha1(json.dumps([jn, label, inp], sort_keys=True).encode()).hexdigest()[:10]
        path = os.path.join(OUT, "replays", "%s-%s.json" % (prop, h))
        with open(path, "w") as f:
            json.dump(dict(property=prop, job=jn, label=label, key=key, inputs=inp, tier=tier, detail=msg), f, indent=1)
        confirmed.append((path, key, msg))
        if len(confirmed) >= 10:
            break

    # verdict lines must start at the beginning of a line even when stderr (twisted's "Unhandled error in Deferred" noise from garbage
    # collection, tracebacks of worker processes) shares the terminal/pipe: collect garbage now, flush, and start on a fresh line
    import gc
    gc.collect()
    try:
        sys.stderr.flush()
    except Exception:
        pass
    sys.stdout.write("\n")
    sys.stdout.flush()
    for key, msg in known_hit.items():
        print("KNOWN-FINDING: property=%s %s -- %s" % (prop, key, msg))
    for path, key, msg in confirmed:
        print("VIOLATION property=%s replay=%s" % (prop, path))
        print("  key=%s: %s" % (key, msg))
    for n in nonrepro:
        print("INCONCLUSIVE property=%s %s" % (prop, n))
    for n in inconclusive:
        print("INCONCLUSIVE property=%s %s" % (prop, n))

    wall = time.time() - t0
    functions = sorted({f for j in jobs for f in j.functions})
    shadows = sorted({f for j in jobs for f in j.shadows})
    nontrivial = sum(1 for r in results if r["stats"] is not None for _ in range(0)) or 0
    cov = dict(
        evaluations=total.paths,
        distinct_nontrivial=sum(v for k, v in total.outcomes.items() if k.startswith("nt:")) or total.paths,
        rule="one evaluation = one feasible path of the real code (distinct path condition, confirmed satisfiable by z3); "
             "distinct_nontrivial counts paths whose harness tagged them non-trivial (outcome classes prefixed 'nt:'), "
             "or all paths when the harness does not tag",
        obligations=total.obligations, discharged=total.discharged,
        obligations_trivially_true=total.trivial,
        checker_cmd="./vcheck %s --tier %s" % (prop, tier),
        trusted_base=list(trusted_base) + ["z3 %s (python API)" % _z3v(), "symrun proxies (per-path concrete validation: %d paths re-run concretely)" % validated],
        explanation=explanation or "bounded symbolic execution of the real code; every end-of-path / in-path obligation is an SMT query",
        solver_queries=total.queries, solver_s=round(total.solver_s, 2),
        paths=total.paths, aborted_paths=total.aborted, outcome_classes=dict(sorted(total.outcomes.items())),
        functions_encoded=functions, shadowed_names=shadows,
        bounds={j.name: j.bounds for j in jobs},
        per_job=per_job, samples=total.samples or [{"note": "no sample"}],
        paths_validated_concretely=validated,
        known_findings_rederived=sorted(known_hit.keys()),
        automat_rows_exercised=_row_coverage(total.cover),
        inconclusive=inconclusive + nonrepro,
        exhaustive=not inconclusive,
    )
    ev = dict(property_id=prop, tier=tier, seed=seed, level=level, coverage=cov,
              assumptions=list(extra_assumptions), wall_s=round(wall, 2), violations=len(confirmed))
    os.makedirs(os.path.join(OUT, "evidence"), exist_ok=True)
    with open(os.path.join(OUT, "evidence", "%s.json" % prop), "w") as f:
        json.dump(ev, f, indent=1, sort_keys=True)
    print("%s tier=%s jobs=%d paths=%d queries=%d obligations=%d/%d solver=%.1fs wall=%.1fs" % (
        prop, tier, len(jobs), total.paths, total.queries, total.discharged, total.obligations, total.solver_s, wall))
    if confirmed:
        return 1
    if inconclusive or nonrepro:
        return 2
    sys.stdout.flush()
    print("PASS property=%s" % prop, flush=True)
    return 0


def _row_coverage(cover):
    """for the mailbox-client explorations: rows of each Automat table exercised by this run vs. rows in the table"""
    if not cover:
        return None
    out = {}
    try:
        from wormhole import _boss, _nameplate, _mailbox, _send, _order, _key, _receive, _lister, _allocator, _input, _code, _terminator
        classes = dict(Boss=_boss.Boss, Nameplate=_nameplate.Nameplate, Mailbox=_mailbox.Mailbox, Send=_send.Send, Order=_order.Order, Key=_key.Key,
                       SortedKey=_key._SortedKey, Receive=_receive.Receive, Lister=_lister.Lister, Allocator=_allocator.Allocator, Input=_input.Input,
                       Code=_code.Code, Terminator=_terminator.Terminator)
        for name, cls in classes.items():
            rows = {(t[0].method.__name__, t[1].method.__name__) for t in cls.m._automaton._transitions}
            seen = {(s, i) for (n, s, i) in cover if n == name}
            out[name] = dict(rows=len(rows), exercised=len(rows & seen), not_exercised=sorted("%s x %s" % r for r in rows - seen))
    except Exception as e:  # coverage is informational only
        out["error"] = repr(e)
    return out


def _z3v():
    import z3
    return z3.get_version_string()
