"""C01 - Session key is bound to the wormhole code: agree iff codes match."""
import sys
import unicodedata
from harness import common
from harness.common import Job, check
from symrun import loader
loader.install()
from symrun import core  # noqa: E402
from symrun.core import eng  # noqa: E402
from symrun import values as V  # noqa: E402
from symrun.values import SymStr, SymBytes, SymBool, fresh_str, sym_and, sym_or, sym_not  # noqa: E402
from symrun import regex as RX  # noqa: E402
from harness.explore import Explore, make_jobs  # noqa: E402
from env.client import World, Client  # noqa: E402
from wormhole import _key as KEY, _rendezvous as RV, _nameplate as NP, _code as CODE, _boss as BOSS, util as UTIL  # noqa: E402
from wormhole.util import dict_to_bytes as real_dict_to_bytes  # noqa: E402


def sym_to_bytes(u):
    """util.to_bytes = UTF8(NFC(u)).  Symbolic strings are restricted to ASCII by the harness, where NFC is the identity."""
    if isinstance(u, SymStr):
        return u.encode("utf-8")
    return unicodedata.normalize("NFC", u).encode("utf-8")


def dict_to_bytes_conc(d):
    def fix(x):
        if isinstance(x, SymStr):
            return x.concrete()
        if isinstance(x, dict):
            return {k: fix(v) for k, v in x.items()}
        if isinstance(x, (list, tuple)):
            return [fix(v) for v in x]
        return x
    return real_dict_to_bytes(fix(d))


def evs(c, tag):
    return [e for e in c.ev if e[0] == tag]


class CodePairs(Job):
    """two real clients whose code words (and application ids) are solver-chosen ASCII strings: equal or different in any position"""
    functions = ["_boss.Boss.set_code", "_code.Code.set_code/do_set_code", "_key.Key/_SortedKey.build_pake/compute_key", "util.to_bytes (ASCII: NFC is the identity)",
                 "_key.derive_key/derive_phase_key/encrypt_data/decrypt_data", "_receive.Receive", "_order.Order", "wormhole._DelegatedWormhole.derive_key"]
    shadows = ["_key.to_bytes (UTF-8 of symbolic ASCII)", "_nameplate.re (regex on symbolic strings)", "_rendezvous.dict_to_bytes (concrete parts of symbolic strings)",
               "ideal PAKE keyed by the symbolic password/id (env/client.py)"]

    def __init__(self, nwords, vary_appid, order):
        self.L, self.vary_appid, self.order = nwords, vary_appid, order
        self.name = "code_pairs_len%d_%s_%s" % (nwords, "appid" if vary_appid else "code", order)
        self.bounds = dict(code="'7-' + %d symbolic printable-ASCII characters (no space) on each side" % nwords,
                           appid="two symbolic characters per side" if vary_appid else "equal", arrival_order=order)
        self.must_reach = ("nt:agree", "nt:disagree")

    def build(self, wa, wb, ida, idb):
        w = World()
        w.__enter__()
        a = Client(w, "A", appid=ida)
        b = Client(w, "B", appid=idb)
        return w, a, b

    def run(self, wa, wb, ida, idb, symbolic):
        w = World()
        sh = [(KEY, "to_bytes", sym_to_bytes), (RV, "dict_to_bytes", dict_to_bytes_conc), (NP, "re", RX.SymReModule()),
              (KEY, "isinstance", V.sym_isinstance), (BOSS, "isinstance", V.sym_isinstance), (UTIL, "isinstance", V.sym_isinstance)] if symbolic else []
        with w, loader.shadow(*sh):
            a = Client(w, "A", appid="app")
            b = Client(w, "B", appid="app")
            if symbolic or ida != idb:
                a.boss._K._SK._appid = ida if not isinstance(ida, str) or symbolic else ida
                b.boss._K._SK._appid = idb
            a.open()
            b.open()
            w.settle()
            if self.order == "a-first":
                a.api("set_code", "7-" + wa)
                w.settle()
                b.api("set_code", "7-" + wb)
            elif self.order == "b-pake-early":
                # B's PAKE reaches A's mailbox before A knows its code: A uses input_code(), the nameplate is typed first
                b.api("set_code", "7-" + wb)
                w.settle()
                h = a.api("input_code")
                h.choose_nameplate("7")
                w.settle()
                h.choose_words(wa)
            else:
                a.api("set_code", "7-" + wa)
                b.api("set_code", "7-" + wb)
            a.api("send_message", b"from-A")
            b.api("send_message", b"")          # the empty message is a legal payload
            w.settle()
            keys = {}
            for c in (a, b):
                try:
                    keys[c.name] = (c.w.derive_key("purpose-1", 32), c.w.derive_key("purpose-2", 32), c.w.derive_key("purpose-1", 16))
                except Exception as e:
                    core.check_leak(e)
                    keys[c.name] = type(e).__name__
            a.api("close")
            b.api("close")
            w.settle()
            return a, b, keys, list(w.pake_inputs)

    def scenario(self):
        lo, hi = 33, 127
        wa = fresh_str("words_a", self.L, lo, hi)
        wb = fresh_str("words_b", self.L, lo, hi)
        for s in (wa, wb):
            for c in s.c:
                eng().assume(c != 45) if False else None
        if self.vary_appid:
            ida = fresh_str("appid_a", 2, lo, hi)
            idb = fresh_str("appid_b", 2, lo, hi)
        else:
            ida = idb = "app"
        eng().inputs.update(words_a=wa, words_b=wb, appid_a=ida, appid_b=idb)
        a, b, keys, pake_inputs = self.run(wa, wb, ida, idb, True)
        same_code = wa == wb
        same_id = (ida == idb) if self.vary_appid else True
        same = sym_and(same_code, same_id)
        # (a) the password/id reaching the PAKE are exactly UTF8(code) / UTF8(appid)
        check(len(pake_inputs) == 2, "each side must start exactly one PAKE")
        for (pw, idv), words, appid in zip(pake_inputs, (wa, wb) if self.order != "b-pake-early" else (wb, wa),
                                           (ida, idb) if self.order != "b-pake-early" else (idb, ida)):
            exp = SymBytes(list(b"7-")) + words.encode("utf-8")
            check(pw == exp, "PAKE password is not the UTF-8 of the code")
            expid = appid.encode("utf-8") if isinstance(appid, SymStr) else appid.encode("utf-8")
            check((idv == expid) if isinstance(idv, SymBytes) or isinstance(expid, SymBytes) else idv == expid, "PAKE identity is not the UTF-8 of the application id")
        va, vb = evs(a, "verifier"), evs(b, "verifier")
        agreed = bool(va) and bool(vb)
        if agreed:
            check(same, "both sides report a verifier although codes/application ids differ")
            check(va[0][1] == vb[0][1], "verifiers differ")
            ka, kb = keys["A"], keys["B"]
            check(isinstance(ka, tuple) and ka == kb, "derive_key differs between the sides")
            check(ka[0] != ka[1], "different purposes give the same derived key")
            check(ka[2] == ka[0][:16] or len(ka[2]) == 16, "derive_key length not honoured")
            check(evs(a, "message") == [("message", b"")] and evs(b, "message") == [("message", b"from-A")], "messages not exchanged")
            check(a.closed_events() == [("closed", "happy")] and b.closed_events() == [("closed", "happy")], "agreeing sides did not close happy")
            eng().note("nt:agree")
        else:
            check(sym_not(same), "same code and application id but no agreement")
            for c in (a, b):
                check(not evs(c, "verifier") and not evs(c, "versions") and not evs(c, "message"),
                      "a side reported verifier/versions/message although the codes differ")
                heard = any(m.get("type") == "message" and m.get("side") != c.side and m.get("phase") != "pake" for m in c.rx_log)
                if heard:
                    check(c.closed_events() == [("closed", "WrongPasswordError")], "a side that heard the peer's encrypted message did not close with WrongPasswordError")
            eng().note("nt:disagree")

    def replay(self, inp, label):
        wa, wb, ida, idb = inp["words_a"], inp["words_b"], inp["appid_a"], inp["appid_b"]
        a, b, keys, pake_inputs = self.run(wa, wb, ida, idb, False)
        same = (wa == wb) and (ida == idb)
        exp = [(("7-" + w).encode(), i.encode()) for w, i in (((wa, ida), (wb, idb)) if self.order != "b-pake-early" else ((wb, idb), (wa, ida)))]
        if [(bytes(p), bytes(i)) for p, i in pake_inputs] != exp:
            return "PAKE inputs %r, expected %r" % (pake_inputs, exp)
        va, vb = evs(a, "verifier"), evs(b, "verifier")
        if va and vb:
            if not same:
                return "codes %r/%r appids %r/%r: both sides report a verifier" % (wa, wb, ida, idb)
            if va != vb or keys["A"] != keys["B"] or not isinstance(keys["A"], tuple) or keys["A"][0] == keys["A"][1]:
                return "same code: verifier/derive_key mismatch %r %r" % (keys["A"], keys["B"])
            if evs(a, "message") != [("message", b"")] or evs(b, "message") != [("message", b"from-A")]:
                return "same code: messages not exchanged"
            return None
        if same:
            return "same code %r and appid %r but no agreement: A %r B %r" % (wa, ida, a.ev, b.ev)
        for c in (a, b):
            if evs(c, "verifier") or evs(c, "versions") or evs(c, "message"):
                return "codes differ but %s reported %r" % (c.name, c.ev)
            heard = any(m.get("type") == "message" and m.get("side") != c.side and m.get("phase") != "pake" for m in c.rx_log)
            if heard and c.closed_events() != [("closed", "WrongPasswordError")]:
                return "codes differ, %s heard the peer but closed with %r" % (c.name, c.closed_events())
        return None


class Samples(Job):
    """concrete code pairs through the real unicodedata/UTF-8: normalisation-form, case, nameplate and one-character differences"""
    name = "code_samples_nfc_case_nameplate"
    functions = ["util.to_bytes (real unicodedata.normalize)", "whole client"]
    PAIRS = [("7-café-x", "7-café-x", True), ("7-purple-sausages", "7-purple-sausages", True), ("7-Purple-sausages", "7-purple-sausages", False),
             ("7-purple-sausages", "7-purple-sausagez", False), ("7-purple-sausages", "8-purple-sausages", False),
             ("7-Ω", "7-Ω", True), ("7-ﬁ", "7-fi", False)]
    must_reach = ("nt:sample",)
    bounds = dict(pairs=[(a, b) for a, b, _ in PAIRS])

    def run(self, i, order=0):
        ca, cb, same = self.PAIRS[i]
        w = World()
        with w:
            a, b = Client(w, "A"), Client(w, "B", delegated=False)      # one delegate-API side, one Deferred-API side
            a.open()
            b.open()
            if order == 0:
                a.api("set_code", ca)
                b.api("set_code", cb)
            else:
                # the peer's PAKE arrives before the local code is known (input_code: nameplate first, words later),
                # on side A (order 1) or side B (order 2)
                first, fc, second, sc = (b, cb, a, ca) if order == 1 else (a, ca, b, cb)
                first.api("set_code", fc)
                w.settle()
                h = second.api("input_code")
                h.choose_nameplate(sc.split("-", 1)[0])
                w.settle()
                h.choose_words(sc.split("-", 1)[1])
            a.api("send_message", b"x")
            b.api("send_message", b"")
            w.settle()
            # derive_key(purpose, n): identical on both sides for every purpose (also one that is not in NFC form), different for different purposes
            self._dk = None
            if same:
                import unicodedata
                dk = {}
                for side in (a, b):
                    for p in ("p", "cafe\u0301", "caf\u00e9", "\u2126", "q"):
                        try:
                            dk[(side.name, p)] = side.w.derive_key(p, 16)
                        except Exception as e:
                            dk[(side.name, p)] = type(e).__name__
                # "derive_key(purpose, n) yields identical bytes on both sides for every purpose" - and for every n, whatever was derived before:
                # one purpose asked for with several lengths, short one first (each side; one of them is the Deferred API)
                for side in (a, b):
                    for n in (8, 40, 16):
                        try:
                            dk[(side.name, "len", n)] = side.w.derive_key("several-lengths", n)
                        except Exception as e:
                            dk[(side.name, "len", n)] = type(e).__name__
                self._dk = dk
            a.api("close")
            b.api("close")
            w.settle()
            return a, b, same

    def verdict(self, i, order=0):
        a, b, same = self.run(i, order)
        agreed = bool(evs(a, "verifier")) and bool(evs(b, "verifier")) and evs(a, "verifier") == evs(b, "verifier")
        if agreed != same:
            return "codes %r / %r: agreement=%r, expected %r" % (self.PAIRS[i][0], self.PAIRS[i][1], agreed, same)
        dk = getattr(self, "_dk", None)
        if same and dk:
            for p in ("p", "cafe\u0301", "caf\u00e9", "\u2126", "q"):
                if dk[("A", p)] != dk[("B", p)] or not isinstance(dk[("A", p)], bytes):
                    return "derive_key(%r, 16) differs between the two sides (%r vs %r)" % (p, dk[("A", p)], dk[("B", p)])
            if dk[("A", "cafe\u0301")] != dk[("A", "caf\u00e9")]:
                return "derive_key gives different bytes for two spellings of one purpose that are equal after NFC"
            if dk[("A", "p")] == dk[("A", "q")]:
                return "derive_key gives the same bytes for different purposes"
            for n in (8, 40, 16):
                ka, kb = dk[("A", "len", n)], dk[("B", "len", n)]
                if not isinstance(ka, bytes) or not isinstance(kb, bytes) or len(ka) != n or len(kb) != n or ka != kb:
                    return "derive_key('several-lengths', %d) after other lengths of the same purpose: A got %r, B got %r" % (n, ka, kb)
        if not same and (evs(a, "message") or evs(b, "message") or evs(a, "versions") or evs(b, "versions")):
            return "codes %r / %r differ but data was delivered" % self.PAIRS[i][:2]
        return None

    def scenario(self):
        i = eng().choose(len(self.PAIRS), "pair")
        order = eng().choose(3, "order")
        if order and self.PAIRS[i][0].split("-")[0] != self.PAIRS[i][1].split("-")[0]:
            raise core._Abort()     # different nameplates never share a mailbox
        eng().inputs.update(pair=i, order=order)
        check(self.verdict(i, order) is None, "code pair sample")
        eng().note("nt:sample")

    def replay(self, inp, label):
        return self.verdict(inp["pair"], inp.get("order", 0))


CONFIGS = {
    "set-set-wrongcode": dict(modes=("set", "set"), wrong_code=True),
    "alloc-input-wrongwords": dict(modes=("allocate", "input"), wrong_code=True),
    "set-set-rightcode": dict(modes=("set", "set"), nmsg=(1, 2)),
    # the same code under duplicated / reordered delivery (e.g. the peer's VERSION replayed ahead of its PAKE after a re-open)
    "set-set-rightcode-reorder": dict(modes=("set", "set"), nmsg=(1, 1), adversary=("dup",)),
    "alloc-input-rightcode": dict(modes=("allocate", "input")),
    "set-set-appids": dict(modes=("set", "set"), appids=("app1", "app2")),
}


class Orders(Explore):
    """arrival orders: bounded schedules with a wrong / right code"""
    configs = CONFIGS

    def violations(self, sim, when):
        out = []
        if any(c.errors for c in sim.cl):
            return out
        differ = sim.wrong_code or sim.cl[0].boss._appid != sim.cl[1].boss._appid
        a, b = sim.cl
        if differ:
            for c in sim.cl:
                if evs(c, "verifier") or evs(c, "versions") or evs(c, "message"):
                    out.append(("verifier/versions/message reported although codes or application ids differ", "%s: %r" % (c.name, [e[0] for e in c.ev])))
                if when == "settled":
                    heard = any(m.get("type") == "message" and m.get("side") != c.side and m.get("phase") != "pake" for m in c.rx_log)
                    ce = c.closed_events()
                    if heard and ce and ce[0][1] not in ("WrongPasswordError",) and not (sim.api[sim.cl.index(c)]["closed"] and c.closed_when and c.closed_when["boss"] in ("S3_closing",)):
                        # a side that heard from the other closes with WrongPasswordError (unless the application had closed it before that message arrived)
                        if not (c.closed_when and c.closed_when["nev"] is not None and sim.api[sim.cl.index(c)]["closed"] and ce[0][1] == "LonelyError"):
                            out.append(("a side that heard the peer's encrypted message did not close with WrongPasswordError", "%s: %r" % (c.name, ce)))
        else:
            va, vb = evs(a, "verifier"), evs(b, "verifier")
            if va and vb and va[0][1] != vb[0][1]:
                out.append(("verifiers differ although code and application id are the same", ""))
            ka, kb = evs(a, "key"), evs(b, "key")
            if ka and kb and ka[0][1] != kb[0][1]:
                out.append(("session keys differ although code and application id are the same", ""))
            for c in sim.cl:
                ce = c.closed_events()
                if ce and ce[0][1] == "WrongPasswordError":
                    out.append(("WrongPasswordError although code and application id are the same", c.name))
            ready = all(sim.api[j]["code"] and (sim.modes[j] != "input" or sim.api[j]["words"]) and not sim.api[j]["closed"] for j in range(2))
            if when == "settled" and ready and all(c.conn is not None for c in sim.cl):
                # both sides entered the same code, stayed open and connected, and the network delivered everything: agreement is reached
                for c in sim.cl:
                    if not evs(c, "verifier") or not evs(c, "versions"):
                        out.append(("same code and application id, everything delivered, but no verifier/versions reported", "%s: %r" % (c.name, [e[0] for e in c.ev])))
        return out

    def classify(self, label):
        return label.split(":")[0]


def jobs(tier):
    thorough = tier == "thorough"
    J = [Samples()]
    for L in ((1, 2, 3) if thorough else (1, 2)):
        for order in ("together", "a-first", "b-pake-early"):
            J.append(CodePairs(L, False, order))
    J.append(CodePairs(1, True, "together"))
    J += make_jobs(Orders, tier, 2, 3)
    return J


ASSUMPTIONS = [
    "ideal PAKE (env/client.py): both sides derive the same key iff password and identity bytes are equal and each consumed the other's message; ideal AEAD; real HKDF/SHA-256",
    "symbolic codes/application ids are printable ASCII, where NFC normalisation is the identity and UTF-8 is one byte per character; Unicode normalisation, case and "
    "nameplate differences are covered by concrete samples through the real unicodedata (the NFC tables themselves are outside the claim)",
    "symbolic code pairs have equal length (different lengths are trivially different and covered by a concrete sample)",
    "arrival orders: three fixed orders for the symbolic pairs plus bounded schedules (canonical prefix + k steps) for wrong/right concrete codes",
]

if __name__ == "__main__":
    sys.exit(common.main("C01", "harness.c01", level="other", extra_assumptions=ASSUMPTIONS,
                         trusted_base=["ideal PAKE/AEAD contracts", "env/client.py server model"],
                         explanation="two real clients with solver-chosen codes/application ids (z3 decides equal vs different at any position): PAKE inputs are the UTF-8 of "
                                     "code/appid, agreement (equal verifiers, equal derive_key, distinct purposes) iff equal, otherwise no verifier/versions/message and "
                                     "WrongPasswordError; concrete NFC/case/nameplate samples; bounded schedules for arrival orders"))
