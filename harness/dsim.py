"""Bounded symbolic schedules over two real dilation stacks (env/dilation.py): canonical prefix + k free steps +
fair completion, with pluggable oracles (C10, C11, C13, C17, and the dilation half of C20)."""
from harness.common import Job, check
from symrun import core
from symrun.core import eng
from env.dilation import DWorld, AppFactory, LEADER, FOLLOWER
from wormhole._dilation import manager as M

NAMES = ("p0", "p1")


class DSim:
    def __init__(self, expected=(None, None), can_dilate=(("ged",), ("ged",)), half=False, app=True, max_links=4,
                 listen_late=False, stoppable=False, ping_interval=30.0, both_write=False, sides=("aa" * 8, "bb" * 8), peer_inert=False, throttle=False, no_listen=(False, False), silent_after_connect=False, lose_any=False, big_write=False, lazy_tcp=False, late_loss_report=False, half_open=False):
        self.w = self.make_world(sides=sides, expected=expected, can_dilate=can_dilate, ping_interval=ping_interval, no_listen=no_listen)
        self.w.__enter__()
        self.w.inert = peer_inert
        self.w.net.throttle = throttle
        self.throttle = throttle
        self.half, self.app, self.max_links, self.stoppable, self.both_write = half, app, max_links, stoppable, both_write
        self.big_write = big_write      # the opener's second write on a subchannel is just under one Noise message (65515 bytes: encoded record 65524 > 65519)
        self.lazy_tcp = lazy_tcp        # canonical run: a pending connection attempt completes only when nothing else can happen (so selection happens
        #                                 while other attempts of the generation are still in flight)
        self.lose_any = lose_any        # any link may be lost at any time, also the only candidate of a generation (no convergence is claimed then)
        self.peer_inert = peer_inert     # an old peer without dilation support: never starts, never answers
        self.silent_after_connect = silent_after_connect   # canonical run: the link goes silent after convergence until the leader's monitor gives up
        self.listen_late = listen_late
        self.late_loss_report = late_loss_report   # the two ends of a link learn of its loss separately, the Leader's end as late as possible (canonical run)
        self.half_open = half_open      # a live link may die so that only the Follower's end learns of it (the Leader's end stays half-open)
        self.started = [False, False]
        self.stopped_req = [False, False]
        self.trace = []
        self.leader_selected_links = set()
        self.follower_selected_links = set()
        # application model: side 0 opens subchannels p0,p1 to side 1 (and side 1 opens q0 to side 0 when both_write)
        self.ops = {n: [] for n in NAMES}            # issued by the opener: ("connect",) ("write", data) ("close",)
        self.protos = {}                             # name -> opener's protocol once connect() fired
        self.connect_d = {}
        self.listening = set()
        self.factories = {}
        self.nwrites = {n: 0 for n in NAMES}
        self.closed = set()
        self.bwrites = {n: 0 for n in NAMES}
        self.bclosed = set()
        self.write_errors = []
        self.wac = {}               # name -> outcome of a write issued after the local close
        self.nwac = 0
        self.bconnect_d = None
        self.bproto = []
        self.lost_count = 0
        self.parts = 0

    def make_world(self, **kw):
        return DWorld(**kw)

    # kinds of environment steps an honest canonical run takes, in order of preference (harness/fullstack.py has its own)
    NET = ("start", "msg", "tcp", "data", "turn")
    NET_LAZY = ("start", "msg", "data", "turn", "tcp")

    def close(self):
        self.w.__exit__(None, None, None)

    # ------------------------------------------------------------------ actions
    def control_actions(self):
        """dilation start, delivery of mailbox-carried control messages, stop"""
        w = self.w
        acts = []
        for i in (0, 1):
            X = "AB"[i]
            if self.peer_inert and i == 1:
                continue
            if not self.started[i]:
                acts.append(("start", X))
            if w.sides[i].sender.out and self.started[1 - i] and not self.stopped_req[1 - i] and not self.peer_inert:
                # FIFO per sender: the peer's versions message precedes its first dilate-N message
                acts.append(("msg", X))
            if self.stoppable and self.started[i] and not self.stopped_req[i]:
                acts.append(("stop", X))
        return acts

    def enabled(self):
        w = self.w
        acts = self.control_actions()
        live_pending = [c for c in w.net.pending if not c["cancelled"]]
        live_links = [(a, b) for (a, b) in w.net.links if not a.lost and not a.closed and not b.closed]
        for k in range(min(len(w.net.pending), 3)):
            acts.append(("tcp", k))
        # proviso of the property: the network lets at least one attempt of a generation complete
        if w.net.pending and (len(live_pending) + len(live_links)) >= 2:
            acts.append(("refuse", 0))
        for (a, b) in w.net.links:
            for t in (a, b):
                if t.buf and not t.lost and not t.closed:
                    acts.append(("data", t.link, t.end))
                    if len(t.buf[0]) > 1 and self.parts < 2:
                        # TCP may split a chunk anywhere: representative split points (C12 decides every split point at the framer level)
                        acts.append(("part", t.link, t.end))
                        if len(t.buf[0]) > 2:
                            acts.append(("part", t.link, t.end, "butlast"))
                            acts.append(("part", t.link, t.end, "first"))
            # a link in use by a side that is CONNECTED may be lost at any time (that side starts a new generation);
            # other links only while another attempt of the generation survives (the property's proviso)
            in_use_connected = any(p.link == a.link and w.sides[i].state() == "CONNECTED" for i in (0, 1) for (p, _) in w.selected(i))
            if self.lost_count < self.max_links - 1 and (self.lose_any or in_use_connected or (len(live_pending) + len(live_links)) >= 2):
                acts.append(("lose", a.link))
        for t in w.net.closing:
            if ("lose", t.link) not in acts:
                acts.append(("lose", t.link))
        if self.half_open and self.lost_count < 1:
            for (a, b) in w.net.links:
                for t in (a, b):
                    if not t.lost and not t.closed and not self._is_leader_end(t.link, t.end) and any(p.link == t.link for i in (0, 1) for (p, _) in w.selected(i)):
                        acts.append(("lose1", t.link, t.end))
        if self.late_loss_report:
            # a link somebody hung up on: each end learns of the loss on its own (the end that did not hang up first)
            ends = []
            for t in w.net.closing:
                for x in (t.peer, t):
                    if not x.lost and ("lose1", x.link, x.end) not in ends:
                        ends.append(("lose1", x.link, x.end))
            ends.sort(key=lambda a: 1 if self._is_leader_end(a[1], a[2]) else 0)
            acts += ends
        for (a, b) in w.net.links:
            for t in (a, b):
                if t.prod_paused and t.producer is not None and not t.lost:
                    acts.append(("drain", t.link, t.end))
        dcs = w.reactor.getDelayedCalls()
        if any(dc.getTime() <= w.reactor.seconds() for dc in dcs):
            acts.append(("turn",))
        elif dcs:
            acts.append(("timer",))
        if self.app and (all(self.started) or (self.peer_inert and self.started[0])):
            for n in NAMES:
                if n not in self.connect_d and not self.stopped_req[0]:
                    acts.append(("connect", n))
                if n not in self.listening and not self.stopped_req[1] and not self.peer_inert:
                    acts.append(("listen", n))
                p = self.protos.get(n)
                # a write after the local close must be refused in every later state of the subchannel, also once it is fully closed
                if p is not None and n in self.closed and n not in self.wac:
                    acts.append(("write_after_close", n))
                if p is not None and any(e[0] == p.tag and e[1] == "connectionLost" for e in w.sides[0].applog):
                    p = None    # closed by the peer: the application has been told, further writes are its own error
                if p is not None and n not in self.closed and self.nwrites[n] < 2:
                    acts.append(("write", n))
                if p is not None and n not in self.closed:
                    acts.append(("close", n))
                if self.both_write:
                    bp = self.peer_proto(n)
                    if bp is not None and n not in self.bclosed and self.bwrites[n] < 1:
                        acts.append(("bwrite", n))
                    if bp is not None and n not in self.bclosed:
                        acts.append(("bclose", n))
            if self.both_write and self.bconnect_d is None and not self.stopped_req[1]:
                acts.append(("bconnect",))
        return acts

    def _is_leader_end(self, link, end):
        for (a, b) in self.w.net.links:
            for t in (a, b):
                if t.link == link and t.end == end:
                    p = getattr(t.proto, "_wrappedProtocol", t.proto)
                    return getattr(p, "_role", None) is LEADER
        return False

    def peer_proto(self, n):
        """the listener's protocol for subchannel n, while it is connected (not yet connectionLost)"""
        f = self.factories.get(n)
        if f is None or not f.protos:
            return None
        p = f.protos[0]
        if getattr(p, "transport", None) is None:
            return None
        if any(e[0] == p.tag and e[1] == "connectionLost" for e in self.w.sides[1].applog):
            return None
        return p

    def do(self, act):
        self.trace.append(act)
        w = self.w
        k = act[0]
        if k == "start":
            i = "AB".index(act[1])
            self.started[i] = True
            w.start(i, {"app_versions": {}} if self.peer_inert else None)
        elif k == "msg":
            w.deliver_msg("AB".index(act[1]))
        elif k == "stop":
            i = "AB".index(act[1])
            self.stopped_req[i] = True
            s = w.sides[i]
            s.closing = True
            s.call("stop", s.m.stop)
        elif k == "tcp":
            w.establish(act[1])
        elif k == "refuse":
            w.establish(act[1], refuse=True)
        elif k in ("data", "part"):
            for (a, b) in w.net.links:
                for t in (a, b):
                    if t.link == act[1] and t.end == act[2]:
                        if k == "part":
                            self.parts += 1
                            mode = act[3] if len(act) > 3 else "half"
                            n = len(t.buf[0])
                            w.deliver_data(t, {"half": max(1, n // 2), "butlast": n - 1, "first": 1}[mode])
                        else:
                            w.deliver_data(t)
        elif k == "drain":
            for (a, b) in w.net.links:
                for t in (a, b):
                    if t.link == act[1] and t.end == act[2]:
                        t.drain()
        elif k == "lose":
            self.lost_count += 1
            if not any(t.link == act[1] for t in w.net.closing):
                # the network kills a link nobody had hung up on (the late loss report of a connection that was already closed is no new cause)
                self.cause_losses = getattr(self, "cause_losses", 0) + 1
            w.lose(act[1])
        elif k == "lose1":
            if self.half_open and not any(t.link == act[1] for t in w.net.closing):
                self.lost_count += 1
                self.cause_losses = getattr(self, "cause_losses", 0) + 1
            w.lose_end(act[1], act[2])
        elif k == "turn":
            w.turn()
        elif k == "timer":
            w.fire_timer()
        elif k == "connect":
            n = act[1]
            A = w.sides[0]
            f = AppFactory(A.applog, "A-conn-" + n, half=self.half)
            ep = A.m._api.connector_for(n)
            res = []
            self.connect_d[n] = res
            d = A.call("connect", ep.connect, f)
            self.ops[n].append(("connect",))
            if d is not None:
                d.addCallbacks(lambda p, n=n: (res.append(("ok", p)), self.protos.__setitem__(n, p)),
                               lambda fl, n=n: res.append(("err", fl.type.__name__)))
        elif k == "listen":
            n = act[1]
            B = w.sides[1]
            f = AppFactory(B.applog, "B-listen-" + n, half=self.half)
            self.factories[n] = f
            self.listening.add(n)
            d = B.call("listen", B.m._api.listener_for(n).listen, f)
        elif k == "write":
            n = act[1]
            data = b"%s-w%d" % (n.encode(), self.nwrites[n])
            if self.big_write and self.nwrites[n] == 1:
                data = data + b"." * (65515 - len(data))
            self.nwrites[n] += 1
            self.ops[n].append(("write", data))
            self.w.sides[0].call("write", self.protos[n].transport.write, data)
        elif k == "bwrite":
            n = act[1]
            data = b"%s-back%d" % (n.encode(), self.bwrites[n])
            self.bwrites[n] += 1
            self.w.sides[1].call("bwrite", self.peer_proto(n).transport.write, data)
        elif k == "bclose":
            n = act[1]
            self.bclosed.add(n)
            t = self.peer_proto(n).transport
            self.w.sides[1].call("bclose", t.loseWriteConnection if self.half else t.loseConnection)
        elif k == "bconnect":
            B = w.sides[1]
            f = AppFactory(B.applog, "B-conn-q0", half=self.half)
            res = []
            self.bconnect_d = res
            d = B.call("bconnect", B.m._api.connector_for("q0").connect, f)
            if d is not None:
                d.addCallbacks(lambda p: (res.append(("ok", p)), self.bproto.append(p)), lambda fl: res.append(("err", fl.type.__name__)))
        elif k == "write_after_close":
            n = act[1]
            outcomes = []
            for data in (b"", b"late"):      # (an EMPTY write after close is a write after close, too)
                try:
                    self.protos[n].transport.write(data)
                    outcomes.append("accepted")
                except (core.Escape, core.Inconclusive, core._Abort, core.Counterexample):
                    raise
                except Exception as e:
                    core.check_leak(e)
                    outcomes.append("raised " + type(e).__name__)
            self.wac[n] = "accepted" if "accepted" in outcomes else outcomes[-1]
        elif k == "close":
            n = act[1]
            self.closed.add(n)
            self.ops[n].append(("close",))
            t = self.protos[n].transport
            self.w.sides[0].call("close", t.loseWriteConnection if self.half else t.loseConnection)
        else:
            raise AssertionError(act)
        self.observe()

    def observe(self):
        """history needed by the oracles: which links each side ever had in state 'selected'"""
        for i in (0, 1):
            for (pipe, p) in self.w.selected(i):
                role = self.w.sides[i].m._my_role
                (self.leader_selected_links if role is LEADER else self.follower_selected_links).add(pipe.link)

    def settle(self):
        for i in (0, 1):
            if self.peer_inert and i == 1:
                continue
            if not self.started[i]:
                self.started[i] = True
                self.w.start(i)
        for _ in range(4):
            self.w.settle()
            self.observe()

    def canonical(self):
        """deterministic honest run: start, converge, open/listen/write/close, lose the selected link, reconverge, write again"""
        out = []

        def run(pred_order, limit=200):
            for _ in range(limit):
                acts = self.enabled()
                pick = None
                for kind in pred_order:
                    for a in acts:
                        if a[0] == kind:
                            pick = a
                            break
                    if pick:
                        break
                if pick is None:
                    return
                self.do(pick)
                out.append(pick)
        net = list(self.NET_LAZY if self.lazy_tcp else self.NET)
        if self.throttle:
            return self.canonical_throttled(run, out, net)
        run(net)
        if self.silent_after_connect:
            # nothing is delivered while the leader's ping timer expires twice: the monitor disconnects, a new generation follows
            for _ in range(3):
                if ("timer",) in self.enabled():
                    self.do(("timer",))
                    out.append(("timer",))
            run(net + (["lose1"] if self.late_loss_report else []))
            if self.late_loss_report:
                return out
        if self.app and self.listen_late:
            # the peer opens two subchannels and writes to both before the local application registers its listeners
            for step in (("connect", "p0"), ("connect", "p1"), ("write", "p0"), ("write", "p1"), ("write", "p0"), ("listen", "p0"), ("listen", "p1"), ("write", "p1")):
                if step in self.enabled():
                    self.do(step)
                    out.append(step)
                run(net)
        elif self.app:
            for step in (("connect", "p0"), ("listen", "p0"), ("write", "p0")):
                if step in self.enabled():
                    self.do(step)
                    out.append(step)
                run(net)
        sel = self.w.selected(0)
        if sel:
            a = ("lose", sel[0][0].link)
            self.do(a)
            out.append(a)
            run(net)
        if self.app:
            for step in (("write", "p0"), ("connect", "p1"), ("close", "p0")):
                if step in self.enabled():
                    self.do(step)
                    out.append(step)
                run(net)
        return out


def _canonical_throttled(self, run, out, net):
    """back-pressure variant: the send buffer fills after every write; two losses, the second one while a re-send
    of queued records is interrupted by back-pressure"""
    netd = net + ["drain"]

    def step(a):
        if a in self.enabled():
            self.do(a)
            out.append(a)
            return True
        return False
    run(netd)
    for a in (("connect", "p0"), ("listen", "p0")):
        step(a)
        run(netd)
    step(("write", "p0"))
    run(netd)
    for rnd in range(2):
        sel = self.w.selected(0)
        if sel:
            step(("lose", sel[0][0].link))
        if rnd == 0:
            # queued while disconnected: a write and an OPEN
            step(("write", "p0"))
            step(("connect", "p1"))
        run(net)            # re-converge, but nobody drains: the re-send stops after its first record
    run(netd)
    step(("close", "p0"))
    run(netd)
    return out


DSim.canonical_throttled = _canonical_throttled

_canon = {}


def canonical(cfgname, configs, simcls=None):
    simcls = simcls or DSim
    ckey = (simcls.__name__, cfgname)
    if ckey not in _canon:
        sim = simcls(**configs[cfgname])
        try:
            tr = sim.canonical()
            # vacuity guard: an honest run must converge (and, with an application, deliver something)
            if not sim.peer_inert:
                st = [s.state() for s in sim.w.sides]
                if st != ["CONNECTED", "CONNECTED"]:
                    CANON_STALLED[cfgname] = "canonical dilation run of config %r ended in %r after %d steps" % (cfgname, st, len(tr))
                exp = sim.w._args[1][1]
                if sim.app and (exp is None or "p0" in exp) and not any(e[1] == "data" for e in sim.w.sides[1].applog):
                    CANON_STALLED.setdefault(cfgname, "canonical dilation run of config %r delivered no subchannel data" % (cfgname,))
            _canon[ckey] = tr
        finally:
            sim.close()
    return _canon[ckey]


def replay_actions(sim, actions):
    for a in actions:
        a = tuple(a)
        if a not in sim.enabled():
            return False
        sim.do(a)
    return True


# vacuity guard: an honest canonical run that does not reach its goal.  The prefixes of what there is are still explored (on modified code the
# oracle usually says why the run stalled); a path that ends without a violation is inconclusive, never a pass.
CANON_STALLED = {}


class DExplore(Job):
    functions = ["_dilation.manager.Manager (table + outputs, got_record, send_*, connector_connection_made/lost, TrafficTimer)",
                 "_dilation.connector.Connector (start/_start_listener/_use_hints/_connect/add_candidate/consider/accept/stop)",
                 "_dilation.connection.DilatedConnectionProtocol/_Record/_Framer", "_dilation.inbound.Inbound", "_dilation.outbound.Outbound",
                 "_dilation.subchannel.SubChannel/SubchannelConnectorEndpoint/SubchannelListenerEndpoint/SubchannelDemultiplex",
                 "_hints.parse_hint/encode_hint/endpoint_from_hint_obj", "eventual.EventualQueue", "observer.OneShotObserver/EmptyableSet"]
    shadows = ["connector.NoiseConnection/build_noise (ideal Noise stub)", "ipaddrs.find_addresses (127.0.0.1)",
               "reactor = in-memory Clock with listenTCP/connectTCP recorded (env/dilation.py)"]
    configs = {}
    allowed = None
    simcls = DSim
    prefix = "dexplore"

    def __init__(self, cfg, plo, phi, k):
        self.cfg, self.plo, self.phi, self.k = cfg, plo, phi, k
        self.name = "%s_%s_p%d-%d_k%d" % (self.prefix, cfg, plo, phi, k)
        self.bounds = dict(config=cfg, config_args={k2: repr(v) for k2, v in self.configs[cfg].items()},
                           canonical_prefix_lengths="%d..%d" % (plo, phi - 1), free_steps=k,
                           free_step_kinds="all enabled" if self.allowed is None else sorted(self.allowed),
                           then="fair completion (every pending connect completes, all bytes and control messages delivered, zero-delay timers run), oracle, then the rest of "
                                "the canonical run as far as still enabled (C17: stop() on every side), fair completion, oracle")
        self.must_reach = ("nt:explored",)

    def violations(self, sim, when):
        raise NotImplementedError

    def classify(self, label):
        return label.split(":")[0]

    def key(self, inp, label):
        return self.classify(label)

    def _oracle(self, sim, when):
        v = self.violations(sim, when)
        for what, detail in v:
            check(False, "%s: %s" % (what, detail))
        if not v:
            st = eng().stats
            st.obligations += 1
            st.discharged += 1
            st.trivial += 1
        return not v

    def free_actions(self, sim):
        acts = sim.enabled()
        if self.allowed is not None:
            acts = [a for a in acts if a[0] in self.allowed]
        return acts

    def final_phase(self, sim):
        """hook: something the property demands from EVERY state the exploration ends in (run after the settled oracle passed);
        returns True if it did anything, the run is then settled and judged again.
        Default = honest completion: the rest of the canonical run (the application's remaining opens/listens/writes/closes and the
        environment steps recorded with them) is carried out as far as each step is still enabled in the state reached."""
        rest = getattr(sim, "_rest", None)
        if not rest:
            return False
        did = False
        for a in rest:
            a = tuple(a)
            if a in sim.enabled():
                sim.do(a)
                did = True
        return did

    def scenario(self):
        canon = canonical(self.cfg, self.configs, self.simcls)
        span = [p for p in range(self.plo, self.phi) if p <= len(canon)]
        if not span:
            raise core._Abort()
        p = span[eng().choose(len(span), "prefix")]
        sim = self.simcls(**self.configs[self.cfg])
        sched = []
        eng().inputs["prefix"] = p
        eng().inputs["sched"] = sched
        try:
            assert replay_actions(sim, canon[:p]), "canonical prefix not replayable"
            sim._rest = canon[p:]
            if not self._oracle(sim, "prefix"):
                return
            for step in range(self.k):
                acts = self.free_actions(sim)
                if not acts:
                    break
                a = acts[eng().choose(len(acts), "act%d" % step)]
                sched.append(list(a))
                sim.do(a)
                if not self._oracle(sim, "step"):
                    return
            sim.settle()
            if self._oracle(sim, "settled") and self.final_phase(sim):
                sim.settle()
                self._oracle(sim, "settled")
            if self.cfg in CANON_STALLED:
                eng().note("canonical-stalled: " + CANON_STALLED[self.cfg])      # -> inconclusive unless the job found a violation (harness/common.py)
            eng().note("nt:explored")
        finally:
            sim.close()

    def replay(self, inp, label):
        canon = canonical(self.cfg, self.configs, self.simcls)
        sim = self.simcls(**self.configs[self.cfg])
        try:
            if not replay_actions(sim, canon[:inp["prefix"]]):
                return None
            sim._rest = canon[inp["prefix"]:]
            fails = self.violations(sim, "prefix")
            for a in inp["sched"]:
                if fails:
                    break
                a = tuple(a)
                if a not in sim.enabled():
                    return None
                sim.do(a)
                fails = self.violations(sim, "step")
            if not fails:
                sim.settle()
                fails = self.violations(sim, "settled")
            if not fails and self.final_phase(sim):
                sim.settle()
                fails = self.violations(sim, "settled")
            if fails:
                return "config %s, canonical prefix of %d steps (...%r) + %r: %s: %s" % (
                    self.cfg, inp["prefix"], [tuple(x) for x in canon[max(0, inp["prefix"] - 3):inp["prefix"]]],
                    [tuple(x) for x in inp["sched"]], fails[0][0], fails[0][1])
            return None
        finally:
            sim.close()


def make_jobs(cls, tier, kq, kt, stepq=6, stept=3):
    thorough = tier == "thorough"
    k = kt if thorough else kq
    J = []
    for cfg in cls.configs:
        n = len(canonical(cfg, cls.configs, cls.simcls))
        step = stept if thorough else stepq
        for lo in range(0, n + 1, step):
            J.append(cls(cfg, lo, min(lo + step, n + 1), k))
    return J


class DRandomPrefixMixin:
    """deepening (thorough tier): checkpoints reached by pseudo-random legal schedules (seeded, reproducible); the suffix of k free
    steps is still explored exhaustively under the solver and judged by the same oracle"""
    batch = ()
    plen = 30

    def gen_prefix(self, sim, seed):
        import random
        rnd = random.Random(seed)
        n = rnd.randrange(8, self.plen + 1)
        out = []
        for _ in range(n):
            acts = self.free_actions(sim)
            if not acts:
                break
            weights = [1 if a[0] in ("lose", "stop", "refuse", "part") else 3 for a in acts]
            a = rnd.choices(acts, weights)[0]
            sim.do(a)
            out.append(a)
            if self.violations(sim, "step"):
                break
        return out

    def scenario(self):
        seeds = list(self.batch)
        seed = seeds[eng().choose(len(seeds), "seed")]
        sim = self.simcls(**self.configs[self.cfg])
        sched = []
        eng().inputs["rseed"] = seed
        eng().inputs["sched"] = sched
        try:
            self.gen_prefix(sim, seed)
            if not self._oracle(sim, "prefix"):
                return
            for step in range(self.k):
                acts = self.free_actions(sim)
                if not acts:
                    break
                a = acts[eng().choose(len(acts), "act%d" % step)]
                sched.append(list(a))
                sim.do(a)
                if not self._oracle(sim, "step"):
                    return
            sim.settle()
            if self._oracle(sim, "settled") and self.final_phase(sim):
                sim.settle()
                self._oracle(sim, "settled")
            eng().note("nt:explored")
        finally:
            sim.close()

    def replay(self, inp, label):
        sim = self.simcls(**self.configs[self.cfg])
        try:
            pre = self.gen_prefix(sim, inp["rseed"])
            fails = self.violations(sim, "prefix")
            for a in inp["sched"]:
                if fails:
                    break
                a = tuple(a)
                if a not in sim.enabled():
                    return None
                sim.do(a)
                fails = self.violations(sim, "step")
            if not fails:
                sim.settle()
                fails = self.violations(sim, "settled")
            if not fails and self.final_phase(sim):
                sim.settle()
                fails = self.violations(sim, "settled")
            if fails:
                return "config %s, pseudo-random checkpoint (seed %d: %r) + %r: %s: %s" % (
                    self.cfg, inp["rseed"], pre, [tuple(x) for x in inp["sched"]], fails[0][0], fails[0][1])
            return None
        finally:
            sim.close()


def make_random_jobs(cls, tier, per_cfg=64, batch=4, k=2, plen=40, base_seed=0):
    if tier != "thorough":
        return []
    import os
    base = int(os.environ.get("VERIF_SEED", "0") or 0) * 100003 + base_seed
    rcls = type("Random" + cls.__name__, (DRandomPrefixMixin, cls), {})
    J = []
    for cfg in cls.configs:
        for b in range(0, per_cfg, batch):
            j = rcls(cfg, 0, 1, k)
            j.batch = tuple(base + b + i for i in range(batch))
            j.plen = plen
            j.name = "drandom_%s_s%d-%d_k%d" % (cfg, j.batch[0], j.batch[-1], k)
            j.bounds = dict(j.bounds, checkpoints="pseudo-random legal schedules of 8..%d steps, seeds %d..%d" % (plen, j.batch[0], j.batch[-1]))
            j.must_reach = ()
            J.append(j)
    return J
