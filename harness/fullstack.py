"""Full-stack schedule exploration: two real wormholes (wormhole.create(dilation=True)) over the mailbox server model AND the
in-memory TCP network (env/full.py).  Removes the 'a client of the mailbox model never dilates' residue: `dilate-N` phases travel
through the real Send/Mailbox/Order/Receive/Boss path (encrypted, de-duplicated, re-ordered by Boss), `w.close()` runs the real
Terminator -> Dilator.stop -> Manager.stop -> when_stopped -> closed notification, the mailbox connection may drop and return while
the peer-to-peer connection lives (and vice versa), and application messages share the mailbox with the dilation control traffic.

FSim extends harness.dsim.DSim: the network/application actions and the observations the C10/C11/C13/C17 oracles read are
inherited; the control-plane actions (DSim: start/msg/stop on a bare Manager) are replaced by
  ("mopen", X) ("mdrop", X)   the WebSocket to the mailbox server connects / is lost
  ("mrx", X)                  the next owed server message is delivered to X
  ("mrx2", X)                 the SECOND owed `message` is delivered before the first (reordering server), at most twice
  ("mstopped", X)             X's ClientService finished stopping
  ("start", X)                the application calls w.dilate(...)
  ("send", X)                 the application calls w.send_message(next payload)
  ("stop", X)                 the application calls w.close()
"""
from harness.dsim import DSim, DExplore, make_jobs as _make_jobs, make_random_jobs as _make_random_jobs, NAMES  # noqa: F401
from harness.composed import payload
from env.full import FWorld


class FSim(DSim):
    NET = ("mopen", "start", "send", "mrx", "mstopped", "tcp", "data", "turn")
    NET_LAZY = ("mopen", "start", "send", "mrx", "mstopped", "data", "turn", "tcp")

    def __init__(self, nmsg=(1, 1), max_mdrops=1, dilate_when="early", old_peer=False, reorder=False, disjoint=False, **kw):
        self.nmsg, self.max_mdrops, self.reorder = nmsg, max_mdrops, reorder
        self.disjoint = disjoint        # the peer offers only a dilation version we do not know: it "cannot dilate" with us, although it would like to
        self.dilate_when = dilate_when
        self.old_peer = old_peer
        self.mopens = [0, 0]
        self.mdrops = 0
        self.swaps = 0
        self.sent = [0, 0]
        kw.setdefault("stoppable", True)
        DSim.__init__(self, peer_inert=old_peer or disjoint, **kw)

    def make_world(self, sides=None, expected=(None, None), can_dilate=None, ping_interval=30.0, no_listen=(False, False)):
        return FWorld(expected=expected, ping_interval=ping_interval, can_dilate=(True, not self.old_peer), no_listen=no_listen, disjoint=self.disjoint)

    def control_actions(self):
        acts = []
        w = self.w
        for i in (0, 1):
            X = "AB"[i]
            s = w.sides[i]
            c = s.c
            if s.can and not self.started[i] and not self.stopped_req[i]:
                acts.append(("start", X))
            if not self.stopped_req[i]:
                if self.sent[i] < self.nmsg[i]:
                    acts.append(("send", X))
                if self.stoppable:
                    acts.append(("stop", X))
            if c.svc.stop_d is not None:
                acts.append(("mstopped", X))
            if c.conn is None:
                if c.can_connect() and self.mopens[i] < 1 + self.max_mdrops:
                    acts.append(("mopen", X))
            else:
                if self.mdrops < self.max_mdrops:
                    acts.append(("mdrop", X))
                if c.conn.down:
                    acts.append(("mrx", X))
                    if self.reorder and self.swaps < 2 and len(c.conn.down) > 1 and c.conn.down[0].get("type") == "message" and c.conn.down[1].get("type") == "message":
                        acts.append(("mrx2", X))
        return acts

    def do(self, act):
        k = act[0]
        w = self.w
        if k in ("start", "stop", "send", "mopen", "mdrop", "mrx", "mrx2", "mstopped"):
            self.trace.append(act)
            i = "AB".index(act[1])
            s = w.sides[i]
            c = s.c
            if k == "start":
                self.started[i] = True
                w.start(i)
            elif k == "stop":
                self.stopped_req[i] = True
                w.close_wormhole(i)
            elif k == "send":
                c.api("send_message", payload(act[1], self.sent[i]))
                self.sent[i] += 1
            elif k == "mopen":
                self.mopens[i] += 1
                c.open()
            elif k == "mdrop":
                self.mdrops += 1
                c.drop()
            elif k == "mrx":
                c.rx_next()
            elif k == "mrx2":
                self.swaps += 1
                first = c.conn.down.popleft()
                second = c.conn.down.popleft()
                c.conn.down.appendleft(first)
                c.rx(second)
            elif k == "mstopped":
                c.fire_stopped()
            self.observe()
            return
        DSim.do(self, act)

    # ---- what harness.c08.CloseExplore.violations reads from a mailbox-level Sim
    world = property(lambda self: self.w.mw)
    cl = property(lambda self: [s.c for s in self.w.sides])
    adv = frozenset()
    wrong_code = False
    api = property(lambda self: [dict(closed=self.stopped_req[i]) for i in (0, 1)])

    def peer_versions_seen(self):
        return any(e[0] == "versions" for e in self.w.sides[0].c.ev)

    def settle(self):
        for i in (0, 1):
            if not self.started[i] and self.w.sides[i].can and not self.stopped_req[i]:
                self.started[i] = True
                self.w.start(i)
        for _ in range(4):
            self.w.settle()
            self.observe()

    def canonical(self):
        if self.dilate_when == "late":
            # the key exchange and the versions are complete before either application asks for dilation
            out = []
            for _ in range(60):
                pick = None
                for kind in ("mopen", "mrx", "turn"):
                    for a in self.enabled():
                        if a[0] == kind and not (kind == "mopen" and self.mopens["AB".index(a[1])] >= 1):
                            pick = a
                            break
                    if pick:
                        break
                if pick is None:
                    break
                self.do(pick)
                out.append(pick)
            rest = DSim.canonical(self)
            return out + rest
        return DSim.canonical(self)


def app_message_violations(sim, when):
    """C02/C03/C18 clauses the full stack can break: the application's message stream is exactly the peer's send_message() payloads (prefix, in
    order), so no `dilate-N` plaintext is ever delivered as a message and no application message is swallowed by dilation"""
    out = []
    w = sim.w
    for i in (0, 1):
        c = w.sides[i].c
        got = [e[1] for e in c.ev if e[0] == "message"]
        sent = [payload("AB"[1 - i], n) for n in range(sim.sent[1 - i])]
        if got != sent[:len(got)]:
            out.append(("application received something its peer did not send", "%s got %r, peer sent %r" % (c.name, got, sent)))
        if when == "settled" and not any(sim.stopped_req) and got != sent:
            out.append(("application message not delivered", "%s got %r, peer sent %r" % (c.name, got, sent)))
        kinds = [e[0] for e in c.ev]
        for kind in ("code", "key", "verifier", "versions"):
            if kinds.count(kind) > 1:
                out.append(("event delivered twice", "%s: %s" % (c.name, kind)))
    return out


def base_violations(sim):
    out = []
    for s in sim.w.sides:
        for e in s.errors:
            out.append(("internal failure", "%s: %s %s: %s" % (s.name, e[0], e[1], e[2])))
    for l in sim.w.logged:
        out.append(("error logged", l))
    return out


class FExplore(DExplore):
    simcls = FSim
    prefix = "fullstack"
    functions = ["wormhole.create(dilation=True) -> _boss.Boss (incl. _got_dilate/D_received_dilate re-ordering buffer) and every machine it wires, "
                 "_rendezvous.RendezvousConnector, _terminator.Terminator.stop_dilator/stoppedD, wormhole._DeferredWormhole.dilate/close",
                 "_dilation.manager.Dilator (dilate/got_key/got_wormhole_versions/received_dilate/stop) -> Manager and everything listed for the dilation explorations"]
    shadows = ["_rendezvous.internet.ClientService (fake)", "_key.SPAKE2_Symmetric (ideal PAKE)", "_key.SecretBox (ideal AEAD)", "os.urandom (deterministic)",
               "connector.NoiseConnection/build_noise (ideal Noise stub)", "ipaddrs.find_addresses (127.0.0.1)",
               "reactor = in-memory Clock with listenTCP/connectTCP recorded; mailbox server model + fake WebSocket (env/client.py)"]

    # after the first free step only "decisions" are explored (application calls, faults, dials); plain deliveries/turns continue in the fair
    # completion anyway.  None = every enabled action at every free step (thorough tier).
    DECISIONS = frozenset(("start", "stop", "send", "mopen", "mdrop", "mstopped", "mrx2", "lose", "refuse", "connect", "listen", "write", "close",
                           "bwrite", "bclose", "bconnect", "write_after_close", "timer", "part"))
    late_kinds = DECISIONS

    def free_actions(self, sim):
        from symrun.core import eng
        acts = DExplore.free_actions(self, sim)
        if self.late_kinds is not None and len(eng().inputs.get("sched", ())) >= 1:
            acts = [a for a in acts if a[0] in self.late_kinds]
        return acts


def make_jobs(cls, tier, kq, kt, stepq=8, stept=4):
    # thorough: the same depth (a full-stack path costs ~20 ms and a canonical run has ~95 checkpoints: depth 3 over every action took 17 minutes for
    # one property's family on 16 cores), but EVERY enabled action at both free steps, plus the pseudo-random checkpoints
    J = _make_jobs(cls, tier, kq, kq, stepq=stepq, stept=stept)
    for j in J:
        if tier == "thorough":
            j.late_kinds = None
        j.bounds = dict(j.bounds, free_step_kinds="first free step: every enabled action; later free steps: " +
                        ("every enabled action" if j.late_kinds is None else "decisions only " + repr(sorted(j.late_kinds))))
    return J


def make_random_jobs(cls, tier, **kw):
    return _make_random_jobs(cls, tier, **kw)
