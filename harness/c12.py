"""C12 - Dilation L2 framing/encryption/encoding is lossless and rejects unkeyed input."""
import sys
import struct as _real_struct
import builtins
from harness import common
from harness.common import Job, check
from symrun import loader
loader.install()
from symrun import core  # noqa: E402
from symrun.core import eng  # noqa: E402
from symrun import values as V  # noqa: E402
from symrun.values import (SymInt, SymBytes, SymStr, SymBool, fresh_int, fresh_bytes, fresh_str,  # noqa: E402
                           sym_and, sym_or, sym_not, be_encode, be_decode)
from env import noise as N  # noqa: E402

from zope.interface import implementer  # noqa: E402
from twisted.internet.interfaces import ITransport  # noqa: E402
from wormhole._dilation import encode as ENC, connection as CX  # noqa: E402


# ------------------------------------------------------------------ shadows
from symrun import structmod as SymStructMod  # noqa: E402


class LogRec:
    def __init__(self):
        self.errs = []
        self.msgs = []

    def err(self, *a, **kw):
        self.errs.append(a)

    def msg(self, *a, **kw):
        self.msgs.append(a)


def shadows(log=None):
    log = log or LogRec()
    return loader.shadow(
        (ENC, "struct", SymStructMod), (ENC, "isinstance", V.sym_isinstance),
        (CX, "isinstance", V.sym_isinstance), (CX, "str", V.sym_str), (CX, "log", log))


SHADOWS = ["encode.struct (pack/unpack '>L' as linear arithmetic)", "encode.isinstance", "connection.isinstance",
           "connection.str (UTF-8 decode: ASCII symbolic, non-ASCII symbolic byte => UnicodeDecodeError)",
           "connection.log"]


def sym_eq(a, b):
    """structural equality without forking -> bool | SymBool"""
    if isinstance(a, tuple) and isinstance(b, tuple):
        if type(a) is not type(b) or len(a) != len(b):
            return False
        return sym_and(*[sym_eq(x, y) for x, y in zip(a, b)]) if len(a) else True
    if isinstance(a, (SymBytes, SymStr, SymInt)):
        return a == b
    if isinstance(b, (SymBytes, SymStr, SymInt)):
        return b == a
    return a == b


@implementer(ITransport)
class Tr:
    def __init__(self):
        self.w = []
        self.lost = 0

    def write(self, d):
        self.w.append(d)

    def loseConnection(self):
        self.lost += 1


# ------------------------------------------------------------------ (1) record round trip
RTYPES = ["KCM", "Ping", "Pong", "Open", "Data", "Close", "Ack"]


def mkrec(kind, I, n):
    """record of type `kind` from an input dict (symbolic or concrete)"""
    if kind == "KCM":
        return CX.KCM()
    if kind in ("Ping", "Pong"):
        return getattr(CX, kind)(I["ping_id"])
    if kind == "Open":
        return CX.Open(I["seqnum"], I["scid"], I["subprotocol"])
    if kind == "Data":
        return CX.Data(I["seqnum"], I["scid"], I["data"])
    if kind == "Close":
        return CX.Close(I["seqnum"], I["scid"])
    if kind == "Ack":
        return CX.Ack(I["resp_seqnum"])


class RoundTrip(Job):
    functions = ["_dilation.encode.to_be4", "_dilation.encode.from_be4", "_dilation.connection.encode_record",
                 "_dilation.connection.parse_record"]
    shadows = SHADOWS

    def __init__(self, kind, n):
        self.kind, self.n = kind, n
        self.name = "roundtrip_%s_%d" % (kind, n)
        self.bounds = dict(record_type=kind, payload_or_name_len=n,
                           ints="every field ranges over all mathematical integers; in-range = [0, 2^32)",
                           subprotocol="symbolic ASCII code points (0..127); non-ASCII covered by concrete samples in job utf8_samples")
        self.must_reach = ("nt:roundtrip-ok",) + (("nt:rejected-out-of-range",) if kind in ("Open", "Data", "Close", "Ack") else ())

    def inputs(self):
        I = {}
        k = self.kind
        if k in ("Ping", "Pong"):
            I["ping_id"] = fresh_bytes("ping_id", 4)
        if k in ("Open", "Data", "Close"):
            I["seqnum"] = fresh_int("seqnum")
            I["scid"] = fresh_int("scid")
        if k == "Open":
            I["subprotocol"] = fresh_str("subprotocol", self.n, 0, 128)
        if k == "Data":
            I["data"] = fresh_bytes("data", self.n)
        if k == "Ack":
            I["resp_seqnum"] = fresh_int("resp_seqnum")
        return I

    def scenario(self):
        I = self.inputs()
        eng().inputs.update(I)
        ints = [v for v in I.values() if isinstance(v, SymInt)]
        with shadows():
            r = mkrec(self.kind, I, self.n)
            try:
                wire = CX.encode_record(r)
            except ValueError:
                # allowed only for an out-of-range integer field
                check(sym_or(*[sym_or(x < 0, x >= 2 ** 32) for x in ints]) if ints else False,
                      "encode_record raised ValueError on in-range fields")
                eng().note("nt:rejected-out-of-range")
                return ("rejected",)
            except (core.Escape, core.Inconclusive, core._Abort, core.Counterexample):
                raise
            except Exception as e:
                check(False, "encode_record raised %s" % type(e).__name__)
                return ("bad",)
            check(sym_and(*[sym_and(x >= 0, x < 2 ** 32) for x in ints]) if ints else True,
                  "encode_record accepted an out-of-range integer")
            r2 = CX.parse_record(wire)
            check(sym_eq(r2, r), "parse_record(encode_record(r)) != r")
            eng().note("nt:roundtrip-ok")
            return ("ok", wire)

    def _concrete(self, inp):
        I = dict(inp)
        r = mkrec(self.kind, I, self.n)
        try:
            wire = CX.encode_record(r)
        except ValueError:
            return ("rejected",), r, None
        return ("ok", wire), r, CX.parse_record(wire)

    def validate(self, inp, observed):
        obs, r, r2 = self._concrete(inp)
        if tuple(observed) != tuple(obs):
            return "symbolic %r vs concrete %r on %r" % (observed, obs, inp)

    def replay(self, inp, label):
        ints = [v for v in inp.values() if isinstance(v, int)]
        inrange = all(0 <= v < 2 ** 32 for v in ints)
        try:
            obs, r, r2 = self._concrete(inp)
        except Exception as e:
            return "%s: exception %r for %r" % (label, e, inp)
        if obs[0] == "rejected":
            return None if not inrange else "encode_record raised ValueError for in-range %r" % (inp,)
        if not inrange:
            return "encode_record accepted out-of-range %r" % (inp,)
        if r2 != r:
            return "round trip changed the record: %r -> %r" % (r, r2)
        return None


class Utf8Samples(Job):
    """non-ASCII subprotocol names: concrete samples through the real (un-shadowed) functions; no solver"""
    name = "utf8_samples"
    functions = ["_dilation.connection.encode_record", "_dilation.connection.parse_record"]
    bounds = dict(samples="7 concrete non-ASCII names incl. 2-,3-,4-byte sequences and combining marks")
    SAMPLES = ["", "é", "ünï", "日本語", "𝔘𝔫𝔦", "á", " x￿"]

    def scenario(self):
        i = eng().choose(len(self.SAMPLES), "sample")
        eng().inputs["i"] = i
        s = self.SAMPLES[i]
        sq = fresh_int("seqnum", 0, 2 ** 32)
        eng().inputs["seqnum"] = sq
        with shadows():
            wire = CX.encode_record(CX.Open(sq, 5, s))
        # the name part is concrete: compare through the real decoder
        tail = bytes(wire.e[9:])
        check(tail == s.encode("utf8"), "utf8 round trip: the encoded subprotocol name is not the UTF-8 of the name")
        try:
            r = CX.parse_record(b"\x03" + b"\0\0\0\5" + b"\0\0\0\7" + tail)
        except UnicodeDecodeError:
            r = None
        check(r == CX.Open(7, 5, s), "utf8 parse: an Open with a non-ASCII subprotocol name is not recovered")
        eng().note("nt:utf8-ok")

    must_reach = ("nt:utf8-ok",)

    def replay(self, inp, label):
        s = self.SAMPLES[inp["i"]]
        try:
            r = CX.parse_record(CX.encode_record(CX.Open(inp["seqnum"], 5, s)))
        except UnicodeDecodeError as e:
            return "utf8 round trip failed for %r: %r" % (s, e)
        return None if r == CX.Open(inp["seqnum"], 5, s) else "utf8 round trip failed for %r: came back as %r" % (s, getattr(r, "subprotocol", r))


# ------------------------------------------------------------------ (2) decoder totality
class DecodeTotal(Job):
    functions = ["_dilation.connection.parse_record", "_dilation.encode.from_be4"]
    shadows = SHADOWS

    def __init__(self, n):
        self.n = n
        self.name = "decode_total_%d" % n
        self.bounds = dict(plaintext_len=n, bytes="each byte ranges over 0..255")
        self.must_reach = ("nt:raised-ValueError",) if n in (0, 2) else ()

    def scenario(self):
        b = fresh_bytes("pt", self.n)
        eng().inputs["pt"] = b
        log = LogRec()
        with shadows(log):
            try:
                r = CX.parse_record(b)
            except (ValueError, UnicodeDecodeError) as e:
                eng().note("nt:raised-%s" % type(e).__name__)
                return ("raised", type(e).__name__)
            except (core.Escape, core.Inconclusive, core._Abort, core.Counterexample):
                raise
            except Exception as e:
                check(False, "parse_record raised %s" % type(e).__name__)
                return ("bad",)
            check(isinstance(r, CX.Records), "parse_record returned a non-record")
            # re-encoding a parsed record and parsing again is a fixed point (canonical form)
            if type(r).__name__ in ("Open", "Data", "Close", "Ack"):
                r3 = CX.parse_record(CX.encode_record(r))
                check(sym_eq(r3, r), "parse/encode/parse not stable")
            eng().note("nt:parsed-%s" % type(r).__name__)
            return ("parsed", type(r).__name__)

    def validate(self, inp, observed):
        try:
            with shadows():
                r = CX.parse_record(inp["pt"])
            obs = ("parsed", type(r).__name__)
        except (ValueError, UnicodeDecodeError) as e:
            obs = ("raised", type(e).__name__)
        if tuple(observed) != obs:
            # the UTF-8 model is deliberately coarse: symbolic non-ASCII bytes are modelled as undecodable
            if inp["pt"][:1] == b"\x03" and any(x >= 128 for x in inp["pt"][9:]):
                return None
            return "symbolic %r vs concrete %r on %r" % (observed, obs, inp)

    def replay(self, inp, label):
        import io
        from twisted.python import log as tlog
        try:
            r = CX.parse_record(inp["pt"])
        except (ValueError, UnicodeDecodeError):
            tlog.theLogPublisher  # noqa
            return None
        except Exception as e:
            return "parse_record(%r) raised %r" % (inp["pt"], e)
        if not isinstance(r, CX.Records):
            return "parse_record(%r) returned %r" % (inp["pt"], r)
        if type(r).__name__ in ("Open", "Data", "Close", "Ack"):
            if CX.parse_record(CX.encode_record(r)) != r:
                return "parse/encode/parse not stable for %r" % (inp["pt"],)
        return None


# ------------------------------------------------------------------ (4)+(5) framer: prologue, relay, frames, chunking
PRO_OUT = b"Magic-Wormhole Dilation Handshake v1 Leader\n\n"
PRO_IN = b"Magic-Wormhole Dilation Handshake v1 Follower\n\n"


def framer_state(f):
    st = getattr(f, type(f).m._symbol)._state.method.__name__ if hasattr(type(f).m, "_symbol") else None
    return st


def machine_state(obj, mname="m"):
    mm = getattr(type(obj), mname)
    return getattr(obj, mm._symbol)._state.method.__name__


def run_framer(chunks, relay):
    """feed chunks to a real _Framer; returns (tokens, disconnected, final state, final buffer, writes)"""
    t = Tr()
    f = CX._Framer(t, PRO_OUT, PRO_IN)
    if relay:
        f.use_relay(b"please relay X\n")
    f.connectionMade()
    toks = []
    disc = False
    for c in chunks:
        try:
            for tok in f.add_and_parse(c):
                toks.append(tok)
        except CX.Disconnect:
            disc = True
            break
    return toks, disc, machine_state(f), f._buffer, t.w


def tok_eq(a, b):
    if len(a) != len(b):
        return False
    cs = []
    for x, y in zip(a, b):
        if type(x) is not type(y):
            return False
        if isinstance(x, CX.Frame):
            cs.append(sym_eq(x.frame, y.frame))
    return sym_and(*cs) if cs else True


def bytes_eq(a, b):
    """False when lengths differ, else (symbolic) element-wise equality"""
    if len(a) != len(b):
        return False
    if not len(a):
        return True
    a = a if isinstance(a, SymBytes) else SymBytes(list(a))
    return a == b


class FramerChunk(Job):
    """two-chunk equivalence on the full framer state => any chunking (induction on #chunks)"""
    functions = ["_dilation.connection._Framer.add_and_parse", "_Framer.parse_frame", "_Framer.parse_prologue",
                 "_Framer.parse_relay_ok", "_Framer._get_expected", "_dilation.encode.from_be4"]
    shadows = SHADOWS

    def __init__(self, relay, total, cut):
        self.relay, self.total, self.cut = relay, total, cut
        self.name = "framer_chunk_%s_%d_%d" % ("relay" if relay else "direct", total, cut)
        self.bounds = dict(stream_len=total, cut=cut, relay=relay,
                           stream="arbitrary bytes (0..255 each) after an arbitrary-length honest or dishonest prefix: "
                                  "the stream itself is fully symbolic, so relay reply, prologue, length prefixes and frame "
                                  "bodies are all chosen by the solver")

    def stream(self):
        # bias the interesting region into reach: the honest relay reply / prologue are long, so the
        # symbolic part follows an honest concrete prefix of symbolic *length class* chosen by choose()
        pre_opts = [b""]
        if self.relay:
            pre_opts += [b"ok\n", b"ok\n" + PRO_IN]
        else:
            pre_opts += [PRO_IN[:-1], PRO_IN]
        k = eng().choose(len(pre_opts), "prefix")
        eng().inputs["prefix_choice"] = k
        pre = pre_opts[k]
        s = fresh_bytes("s", self.total)
        eng().inputs["s"] = s
        return pre, s

    def scenario(self):
        pre, s = self.stream()
        whole = SymBytes(list(pre)) + s
        cut = len(pre) + self.cut
        with shadows():
            A = run_framer([whole], self.relay)
            B = run_framer([whole[:cut], whole[cut:]], self.relay)
        # B may disconnect at the first chunk already only if A disconnects too, and vice versa
        check(A[1] == B[1], "disconnect verdict depends on chunking")
        if A[1] or B[1]:
            # tokens surfaced before a disconnect must agree as well
            check(tok_eq(A[0], B[0]), "tokens before disconnect depend on chunking")
            eng().note("nt:disconnect")
            return ("disc", len(A[0]))
        check(tok_eq(A[0], B[0]), "tokens depend on chunking")
        check(A[2] == B[2], "framer state depends on chunking")
        check(bytes_eq(A[3], B[3]), "residual buffer depends on chunking")
        check(A[4] == B[4], "writes depend on chunking")
        eng().note("nt:tokens-%d-%s" % (len(A[0]), A[2]))
        return ("ok", len(A[0]), A[2])

    def _conc(self, inp):
        pre_opts = [b""] + ([b"ok\n", b"ok\n" + PRO_IN] if self.relay else [PRO_IN[:-1], PRO_IN])
        pre = pre_opts[inp["prefix_choice"]]
        whole = pre + inp["s"]
        cut = len(pre) + self.cut
        return run_framer([whole], self.relay), run_framer([whole[:cut], whole[cut:]], self.relay)

    def validate(self, inp, observed):
        A, B = self._conc(inp)
        obs = ("disc", len(A[0])) if A[1] else ("ok", len(A[0]), A[2])
        if tuple(observed) != obs:
            return "symbolic %r vs concrete %r on %r" % (observed, obs, inp)

    def replay(self, inp, label):
        A, B = self._conc(inp)
        if A[1] != B[1]:
            return "disconnect depends on chunking: whole=%r split=%r input=%r" % (A[1], B[1], inp)
        if A[0] != B[0]:
            return "tokens depend on chunking: %r vs %r" % (A[0], B[0])
        if not A[1] and (A[2] != B[2] or A[3] != B[3] or A[4] != B[4]):
            return "state depends on chunking: %r vs %r" % (A[2:], B[2:])
        return None


class FramerSpec(Job):
    """differential: real framer vs. a short reference (accept iff exact literal, then length-prefixed frames)"""
    functions = FramerChunk.functions
    shadows = SHADOWS

    def __init__(self, relay, stage, n):
        self.relay, self.stage, self.n = relay, stage, n
        self.name = "framer_spec_%s_%s_%d" % ("relay" if relay else "direct", stage, n)
        self.bounds = dict(stage=stage, symbolic_len=n,
                           note="literal stage: n arbitrary bytes follow an honest prefix of every length 0..len(literal); "
                                "frames stage: n arbitrary bytes follow the complete honest literal")
        self.must_reach = ("nt:disconnect", "nt:waiting") if stage == "literal" and n >= 1 else ()
        self.lit = (b"ok\n" if relay else b"") + PRO_IN

    def scenario(self):
        lit = self.lit
        s = fresh_bytes("s", self.n)
        eng().inputs["s"] = s
        if self.stage == "literal":
            off = eng().choose(len(lit) + 1, "offset")
            eng().inputs["offset"] = off
            tail = SymBytes(list(lit[:off])) + s
            with shadows():
                toks, disc, st, buf, w = run_framer([tail], self.relay)
            m = min(len(tail), len(lit))
            agrees = bytes_eq(tail[:m], lit[:m])
            complete = len(tail) >= len(lit)
            has_nl = sym_or(*[x == 10 for x in tail]) if len(tail) else False
            if disc:
                check(sym_not(agrees), "disconnected although the bytes so far match the expected literal")
                check(not toks, "token surfaced from a connection with a wrong literal")
                eng().note("nt:disconnect")
                return ("disc",)
            if complete:
                check(agrees, "wrong relay-reply/prologue literal accepted")
                check(len(toks) >= 1 and isinstance(toks[0], CX.Prologue), "no prologue token after the literal")
                eng().note("nt:accepted")
            else:
                check(not toks, "token surfaced before the literal completed")
                # a diverged literal is rejected at the latest when a newline or the full length arrived;
                # the relay reply and the prologue are checked one after the other, so divergence inside the
                # second literal is judged on the bytes after the first
                eng().note("nt:waiting")
            return ("ok", len(toks), st)
        data = SymBytes(list(lit)) + s
        with shadows():
            toks, disc, st, buf, w = run_framer([data], self.relay)
        check(not disc, "disconnect in frame stage")
        check(len(toks) >= 1 and isinstance(toks[0], CX.Prologue), "no prologue token")
        frames = [t.frame for t in toks[1:]]
        pos = 0
        ref = []
        while True:
            if self.n - pos < 4:
                break
            ln = be_decode(s[pos:pos + 4])
            if isinstance(ln, SymInt):
                fits = ln <= (self.n - pos - 4)
                if not fits:
                    break
                ln = eng().concretize(ln.t)
            elif ln > self.n - pos - 4:
                break
            ref.append(s[pos + 4:pos + 4 + ln])
            pos += 4 + ln
        check(len(frames) == len(ref), "frame count differs from reference")
        if len(frames) == len(ref):
            for a, b in zip(frames, ref):
                check(bytes_eq(a, b), "frame content differs from reference")
            check(bytes_eq(buf, s[pos:]), "residual differs from reference")
        eng().note("nt:frames-%d" % len(ref))
        return ("ok", len(toks), st)

    def _conc(self, inp):
        lit = self.lit
        if self.stage == "literal":
            tail = lit[:inp["offset"]] + inp["s"]
            return run_framer([tail], self.relay), tail
        return run_framer([lit + inp["s"]], self.relay), inp["s"]

    def validate(self, inp, observed):
        with shadows():
            (toks, disc, st, buf, w), tail = self._conc(inp)
        obs = ("disc",) if disc else ("ok", len(toks), st)
        if tuple(observed) != obs:
            return "symbolic %r vs concrete %r on %r" % (observed, obs, inp)

    def replay(self, inp, label):
        (toks, disc, st, buf, w), tail = self._conc(inp)
        lit = self.lit
        if self.stage == "literal":
            m = min(len(tail), len(lit))
            agrees = tail[:m] == lit[:m]
            complete = len(tail) >= len(lit)
            if disc:
                if agrees:
                    return "disconnected although %r matches %r so far" % (tail, lit)
                if toks:
                    return "token %r surfaced from a connection with wrong literal %r" % (toks, tail)
                return None
            if complete and not agrees:
                return "wrong literal accepted: got %r expected %r (tokens %r)" % (tail, lit, toks)
            if complete and not (toks and isinstance(toks[0], CX.Prologue)):
                return "no prologue token after complete literal"
            if not complete and toks:
                return "token surfaced before literal completed: %r" % (toks,)
            return None
        s = inp["s"]
        pos = 0
        ref = []
        while len(s) - pos >= 4:
            ln = int.from_bytes(s[pos:pos + 4], "big")
            if ln > len(s) - pos - 4:
                break
            ref.append(s[pos + 4:pos + 4 + ln])
            pos += 4 + ln
        frames = [t.frame for t in toks[1:]]
        if disc or frames != ref or buf != s[pos:]:
            return "frames %r (residual %r) differ from reference %r (residual %r) for stream %r" % (frames, buf, ref, s[pos:], s)
        return None


class FramerReject(Job):
    """a diverged relay reply / prologue is dropped once a newline or the expected length has arrived"""
    functions = FramerChunk.functions
    shadows = SHADOWS

    def __init__(self, relay, which, n):
        self.relay, self.which, self.n = relay, which, n
        self.name = "framer_reject_%s_%s_%d" % ("relay" if relay else "direct", which, n)
        self.bounds = dict(literal=which, symbolic_len=n)
        self.must_reach = ("nt:disconnect",)

    def scenario(self):
        lit = b"ok\n" if self.which == "relay" else PRO_IN
        pre = b"ok\n" if (self.relay and self.which == "prologue") else b""
        off = eng().choose(len(lit), "offset")
        eng().inputs["offset"] = off
        s = fresh_bytes("s", self.n)
        eng().inputs["s"] = s
        tail = SymBytes(list(lit[:off])) + s
        with shadows():
            toks, disc, st, buf, w = run_framer([SymBytes(list(pre)) + tail], self.relay)
        m = min(len(tail), len(lit))
        agrees = bytes_eq(tail[:m], lit[:m])
        has_nl = sym_or(*[x == 10 for x in tail])
        complete = len(tail) >= len(lit)
        if not disc:
            check(sym_or(agrees, sym_not(sym_or(has_nl, complete))), "diverged literal not rejected after newline/full length")
            eng().note("nt:kept")
        else:
            eng().note("nt:disconnect")
        return ("disc",) if disc else ("kept",)

    def replay(self, inp, label):
        lit = b"ok\n" if self.which == "relay" else PRO_IN
        pre = b"ok\n" if (self.relay and self.which == "prologue") else b""
        tail = lit[:inp["offset"]] + inp["s"]
        toks, disc, st, buf, w = run_framer([pre + tail], self.relay)
        m = min(len(tail), len(lit))
        if not disc and tail[:m] != lit[:m] and (b"\n" in tail or len(tail) >= len(lit)):
            return "diverged %s %r kept open (tokens %r)" % (self.which, tail, toks)
        return None


def jobs(tier):
    thorough = tier == "thorough"
    J = []
    pay = range(0, 9) if thorough else range(0, 5)
    for k in RTYPES:
        if k == "Data":
            J += [RoundTrip(k, n) for n in pay]
        elif k == "Open":
            J += [RoundTrip(k, n) for n in (range(0, 7) if thorough else range(0, 4))]
        else:
            J.append(RoundTrip(k, 0))
    J.append(Utf8Samples())
    J += [DecodeTotal(n) for n in (range(0, 17) if thorough else range(0, 13))]
    tot = 9 if thorough else 7
    for relay in (False, True):
        for cut in range(0, tot + 1):
            J.append(FramerChunk(relay, tot, cut))
    for relay in (False, True):
        for st in ("literal", "frames"):
            for n in (((1, 2, 3, 4) if thorough else (1, 2, 3)) if st != "frames" else ((6, 9, 11) if thorough else (6, 9))):
                J.append(FramerSpec(relay, st, n))
        for which in (("relay", "prologue") if relay else ("prologue",)):
            for n in ((1, 2, 3) if thorough else (1, 2)):
                J.append(FramerReject(relay, which, n))
    from harness import c12_record
    J += c12_record.jobs(tier)
    return J


ASSUMPTIONS = [
    "Noise NNpsk0 replaced by the ideal stub env/noise.py (noiseprotocol is not installed): ciphertexts are fresh byte strings, decrypt succeeds iff given exactly an honest ciphertext of the same psk/opposite role/expected counter",
    "struct.pack/unpack('>L') modelled as exact big-endian linear arithmetic (validated per path against the real struct)",
    "UTF-8 decoding of symbolic bytes: ASCII exact, a symbolic byte >= 0x80 is modelled as UnicodeDecodeError (non-ASCII names are covered by concrete samples only)",
    "payload lengths beyond the stated bounds are outside the claim except for the multi-packet arithmetic, which is decided for all lengths 0..4*65519+9 with the payload an opaque rope",
    "twisted.python.log replaced by a recorder",
]

if __name__ == "__main__":
    sys.exit(common.main("C12", "harness.c12", level="other", extra_assumptions=ASSUMPTIONS,
                         trusted_base=["env/noise.py ideal Noise contract", "symrun/loader.py AST call-site pass (validated by running the repo test suite through it)"],
                         explanation="bounded symbolic execution (symrun + z3) of the real encode/parse/framer/record code: "
                                     "round trip for all field values, decoder totality on arbitrary bytes, differential check of the framer against a reference parser, "
                                     "two-chunk equivalence on the full parser state (=> any chunking), multi-packet Noise arithmetic over a symbolic payload length, "
                                     "rejection of unkeyed handshakes/frames"))
