"""C08 - close() completes once, with the right verdict, and frees server resources."""
import sys
from harness import common
from symrun import loader
loader.install()
from harness.explore import Explore, make_jobs, make_random_jobs  # noqa: E402
from harness.composed import THIRD  # noqa: E402

MOOD = {"happy": "happy", "LonelyError": "lonely", "WrongPasswordError": "scary", "ServerError": "errory", "WelcomeError": "unwelcome"}

CONFIGS = {
    "set-set": dict(modes=("set", "set")),
    "alloc-set": dict(modes=("allocate", "set")),
    "alloc-input": dict(modes=("allocate", "input")),
    "set-set-wrongcode": dict(modes=("set", "set"), wrong_code=True),
    "set-set-deferred": dict(modes=("set", "set"), delegated=(False, False)),
    "alloc-set-srverror": dict(modes=("allocate", "set"), adversary=("srv_error",)),
    "set-set-unwelcome": dict(modes=("set", "set"), welcome_error=True),
    "set-set-third": dict(modes=("set", "set"), adversary=("third",)),
    "solo-alloc": dict(modes=("allocate",), nmsg=(1,)),
    "set-set-internal-error": dict(modes=("set", "set"), adversary=("badhex",)),
    "set-set-unwelcome-later": dict(modes=("set", "set"), adversary=("unwelcome-later",), max_opens=4),
    "set-set-failed-negotiation": dict(modes=("set", "set"), adversary=("failopen",), max_opens=4),
    "alloc-set-failed-negotiation": dict(modes=("allocate", "set"), adversary=("failopen",), max_opens=4),
    "set-set-deferred-internal-error": dict(modes=("set", "set"), delegated=(False, False), adversary=("badhex",)),
}


def verdict_of(c):
    ce = [e for e in c.ev if e[0] == "closed"]
    if c.delegated:
        return [e[1] for e in ce]
    out = []
    for ent in c.deferred_results.get("close", []):
        if ent:
            out.append(ent[0][1] if ent[0][0] == "err" else ent[0][1])
    return out


class CloseExplore(Explore):
    configs = CONFIGS

    def violations(self, sim, when):
        out = []
        srv = sim.world.server
        # "exactly one closed notification, nothing after it" also holds when the wormhole dies of an internal error
        for i, c in enumerate(sim.cl):
            ncl = getattr(c, "closed_calls", None)
            if ncl is not None and ncl > 1:
                out.append(("closed notified more than once", "%s: %d closed notifications" % (c.name, ncl)))
            closed_idx = [k for k, e in enumerate(c.ev) if e[0] == "closed"] if c.delegated else []
            if len(closed_idx) > 1:
                out.append(("closed notified more than once", "%s: %r" % (c.name, c.ev)))
            if closed_idx and closed_idx[0] != len(c.ev) - 1 and not c.errors:
                # (after an internal error Boss.error() reports closed without stopping the connector, which may reconnect and
                # deliver another welcome: that path is C14's subject, see known findings there)
                out.append(("application event delivered after closed", "%s: %r" % (c.name, c.ev[closed_idx[0]:])))
        # for the rest (verdict, resources) internal failures are C14's subject: Boss.error() reports closed at once, without the shutdown handshake
        # only where the configuration itself provokes them (injected internal error; third participant = known C14 findings): an internal failure
        # in any other configuration still has to produce an admissible verdict and free the server resources
        if any(c.errors for c in sim.cl) and (sim.adv & {"badhex", "third"}):
            return out
        for i, c in enumerate(sim.cl):
            closed_idx = [k for k, e in enumerate(c.ev) if e[0] == "closed"] if c.delegated else []
            if closed_idx and c.conn is not None and c.svc.stop_d is None and not getattr(c.svc, "stopped", False):
                out.append(("closed notified while the server connection is still up", c.name))
            if when != "settled":
                continue
            a = sim.api[i]
            unwelcome = any(m.get("type") == "welcome" and "error" in m.get("welcome", {}) for m in c.rx_log)
            srverr = any(m.get("type") == "error" for m in c.rx_log)
            first_failed = getattr(c, "first_attempt_failed", False)     # the very first connection attempt failed: ServerConnectionError
            must_close = a["closed"] or unwelcome or srverr or first_failed
            vs = verdict_of(c)
            if must_close and len(vs) != 1:
                out.append(("no single closed notification after connectivity was restored", "%s: verdicts %r, T=%s B=%s" % (c.name, vs, c.state("T"), c.state("B"))))
                continue
            if not vs:
                continue
            v = vs[0]
            bad_msgs = [m for m in c.rx_log if m.get("type") == "message" and m.get("side") != c.side and
                        (m.get("side") == THIRD or sim.wrong_code)]
            allowed = set()
            if unwelcome:
                allowed.add("WelcomeError")
            if srverr:
                allowed.add("ServerError")
            if bad_msgs:
                allowed.add("WrongPasswordError")
            if first_failed:
                allowed.add("ServerConnectionError")
            if any(m.get("side") == THIRD and m.get("phase") == "pake" for m in c.rx_log):
                allowed.add("JSONDecodeError")      # known C14 finding; not this property's subject
            if a["closed"] and c.closed_when is not None:
                allowed.add("happy" if c.closed_when["boss"] == "S2_happy" else
                            ("LonelyError" if c.closed_when["boss"] in ("S0_empty", "S1_lonely") else "?"))
                if c.closed_when["boss"] in ("S3_closing", "S4_closed"):
                    allowed |= {"happy", "LonelyError", "WrongPasswordError", "ServerError", "WelcomeError"} & (allowed | {"x"}) or allowed
            if v not in allowed:
                out.append(("wrong close verdict", "%s: got %s, admissible %s (closed_when=%r)" % (c.name, v, sorted(allowed), c.closed_when)))
            if v == "happy" and not any(e[0] == "verifier" for e in c.ev) and c.delegated:
                out.append(("happy without a verified peer message", c.name))
            if v == "ServerConnectionError":
                continue        # never connected: nothing on the server to free
            # server-side resources
            if srv.holds_claim(c.side):
                leaked = sorted(k for k, v2 in srv.nameplates.items() if c.side in v2["sides"])
                known = c.boss._N._nameplate
                if known is None:
                    out.append(("claim made by an in-flight allocate not released (closed before `allocated` was received)", c.name))
                elif known in leaked:
                    out.append(("nameplate claim not released", "%s still claims its nameplate %r (all claims: %r)" % (c.name, known, leaked)))
                else:
                    out.append(("claim made by an allocate whose response was lost is not released (allocate re-issued after a reconnect)",
                                "%s knows nameplate %r, server still holds its claim on %r" % (c.name, known, leaked)))
            if srv.has_open(c.side):
                out.append(("mailbox left open", c.name))
            moods = [m for (s, mb, m) in srv.closed if s == c.side]
            if moods and v in MOOD and moods[-1] != MOOD[v]:
                out.append(("mailbox closed with the wrong mood", "%s: verdict %s, mood %r" % (c.name, v, moods)))
            if c.conn is not None:
                out.append(("server connection still up after closed", c.name))
            if not c.delegated:
                for ent in c.deferred_results.get("close", []):
                    if not ent:
                        out.append(("close() Deferred still pending", c.name))
        return out

    def classify(self, label):
        return label.split(":")[0]


# ---- full stack: close() of a wormhole on which dilate() was called (Terminator waits for the Dilator), also against a peer that cannot dilate
from harness import fullstack as FS  # noqa: E402

FS_CONFIGS = {
    "fs-dilating-close-anywhere": dict(app=True),
    "fs-dilating-old-peer": dict(app=True, old_peer=True),
}


class FClose(FS.FExplore):
    configs = FS_CONFIGS

    def final_phase(self, sim):
        did = False
        for a in list(sim.enabled()):
            if a[0] == "stop" and a in sim.enabled():
                sim.do(a)
                did = True
        return did

    def violations(self, sim, when):
        return CloseExplore.violations(self, sim, when)

    def classify(self, label):
        return label.split(":")[0]


def jobs(tier):
    return make_jobs(CloseExplore, tier, 2, 3) + make_random_jobs(CloseExplore, tier) + FS.make_jobs(FClose, tier, 2, 3)


ASSUMPTIONS = [
    "server/connectivity model env/client.py; ideal PAKE/AEAD; frames may still be delivered between stop() and ws_close",
    "'once connectivity allows' = fair completion: the client may reconnect, everything owed is delivered, ClientService stops complete, eventual queue drained",
    "verdict oracle: happy iff Boss had seen a valid peer message when close() was called; LonelyError iff not; WrongPasswordError only after an undecryptable peer message was delivered; "
    "ServerError/WelcomeError only after the server sent error/welcome-error; when several causes race the first one to reach the Boss wins (any admissible cause accepted)",
    "bounded: every prefix of one canonical honest run per configuration + k arbitrary steps + fair completion",
]

if __name__ == "__main__":
    sys.exit(common.main("C08", "harness.c08", level="other", extra_assumptions=ASSUMPTIONS,
                         trusted_base=["env/client.py server/connectivity model", "ideal PAKE/AEAD"],
                         explanation="bounded symbolic schedules (symrun + z3 case-splitting on action-choice variables) over the real composed client(s): "
                                     "exactly one closed notification after fair completion, nothing delivered after it, admissible verdict, claim released, "
                                     "mailbox closed with the matching mood, connection down"))
