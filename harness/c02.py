"""C02 - The mailbox server cannot forge, alter, re-label, replay or reflect messages."""
import sys
import json
from harness import common
from harness.common import Job, check
from symrun import loader
loader.install()
from symrun import core  # noqa: E402
from symrun.core import eng  # noqa: E402
from symrun import values as V  # noqa: E402
from symrun import regex as RX  # noqa: E402
from symrun.values import SymEnum, SymBytes, SymInt, SymBool, fresh_enum, fresh_int, sym_and, sym_or, sym_not, zbyte  # noqa: E402
import z3  # noqa: E402
from harness.composed import Sim, honest_policy, replay_actions, THIRD, payload  # noqa: E402
from harness.explore import canonical, sim_args  # noqa: E402
from wormhole import _rendezvous as RV, _mailbox as MB, _order as ORD, _key as KEY, _receive as RCV, _boss as BOSS, util as UTIL  # noqa: E402
from wormhole.util import hexstr_to_bytes as real_hexstr_to_bytes, bytes_to_hexstr, dict_to_bytes  # noqa: E402

CONFIGS = {
    "set-set": dict(modes=("set", "set"), nmsg=(2, 2)),
    "alloc-input": dict(modes=("allocate", "input"), nmsg=(1, 2)),
    "set-set-starved": dict(modes=("set", "set"), nmsg=(1, 1), canon="starveA"),
    # three phases from one side, all sent before anything is delivered: an authentic later phase can be delivered first (held back),
    # with more phases still to come
    "set-set-burst3": dict(modes=("set", "set"), nmsg=(0, 3), canon="burst"),
}
RELABEL_ONLY = {"set-set-burst3"}
THOROUGH_CONFIGS = {
    "alloc-input-starvedB": dict(modes=("allocate", "input"), nmsg=(1, 1), canon="starveB"),
    "set-set-burst": dict(modes=("set", "set"), nmsg=(2, 1), canon="burst"),
    "set-set-lazy": dict(modes=("set", "set"), nmsg=(1, 1), canon="lazy", eager=False),
}
ALL_CONFIGS = dict(CONFIGS, **THOROUGH_CONFIGS)
PHASES = ["pake", "version", "0", "1", "dilate-0", "junk", "0\u0661", "0\u200b", "00", "\u0660"]
NONPAKE = ["version", "0", "1", "dilate-0", "junk", "0\u0661", "1\u200b"]


def pass_hex(x):
    if isinstance(x, (bytes, SymBytes)):
        return x
    return real_hexstr_to_bytes(x)


def shadows():
    iso = V.sym_isinstance
    real_b2d = RV.bytes_to_dict

    def b2d(frame):
        # the symbolic frame is handed to the real ws_message as an already-parsed dict (its fields are solver values; json is C code)
        return frame if isinstance(frame, dict) else real_b2d(frame)
    return loader.shadow((RV, "hexstr_to_bytes", pass_hex), (RV, "isinstance", iso), (RV, "bytes_to_dict", b2d), (MB, "isinstance", iso), (ORD, "isinstance", iso),
                         (KEY, "isinstance", iso), (RCV, "isinstance", iso), (BOSS, "isinstance", iso), (UTIL, "isinstance", iso),
                         (BOSS, "re", RX.SymReModule()), (BOSS, "int", V.sym_int))


def msgs(c):
    return [e[1] for e in c.ev if e[0] == "message"]


class SimpleRec:
    """IOrder stand-in that records and forwards"""
    def __init__(self, f, real):
        self.got_message = f
        self._real = real

    def __getattr__(self, k):
        return getattr(self._real, k)


class Tamper(Job):
    functions = ["_rendezvous.RendezvousConnector._response_handle_message", "_mailbox.Mailbox.rx_message/N_release_and_accept/dequeue", "_order.Order",
                 "_key.Key/_SortedKey.got_pake/compute_key", "_key.derive_phase_key/decrypt_data", "_receive.Receive.got_message", "_boss.Boss.got_message/W_received/process_version"]
    shadows = ["isinstance in _rendezvous/_mailbox/_order/_key/_receive/_boss/util (symbolic labels count as str, symbolic bodies as bytes)",
               "_rendezvous.hexstr_to_bytes (hands over the symbolic body)", "ideal PAKE / ideal AEAD"]

    def __init__(self, cfg, plo, phi, ninj, kind, reconnect=False):
        self.cfg, self.plo, self.phi, self.ninj, self.kind, self.reconnect = cfg, plo, phi, ninj, kind, reconnect
        self.name = "tamper_%s_%s_p%d-%d_n%d%s" % (cfg, kind, plo, phi, ninj, "_reconnect" if reconnect else "")
        self.bounds = dict(config=cfg, canonical_prefix_lengths="%d..%d" % (plo, phi - 1), injections=ninj, body_kind=kind,
                           side_label="own / peer / third side (symbolic)", phase_label="symbolic over %r" % PHASES,
                           body="any stored mailbox message (honest peer ciphertext, own ciphertext = reflection, PAKE bodies), garbage, fabricated PAKE; "
                                "flip: a stored non-PAKE ciphertext with one byte at a symbolic position replaced by a symbolic value")
        self.must_reach = ()

    def inject(self, sim, victim, script, j):
        """build one adversarial message (symbolic, or from a script when replaying) and deliver it"""
        c = sim.cl[victim]
        peer = sim.cl[1 - victim]
        stored = sim.mailbox_msgs(c) if c.conn is not None else []
        # own / peer / third side, and look-alikes that differ from a real side only by non-ASCII characters
        sides = [c.side, peer.side, THIRD, c.side + "\u200b", "\u00e9" + c.side, peer.side + "\u200b", peer.side[:-1]]
        # label pairs whose CONCATENATION equals that of an honest pair (the boundary between side and phase moved by one character)
        shifted = [peer.side[-1] + "0", peer.side[-1] + "version"]
        if self.ninj > 1:
            sides = sides[:3] if j == 0 else [peer.side]
        symbolic = script is None
        if symbolic:
            side = fresh_enum("inj%d_side" % j, sides)
            eng().inputs["inj%d_side" % j] = side
        else:
            side = script["inj%d_side" % j]
        if self.kind == "flip":
            cand = [k for k, (s, ph, body) in enumerate(stored) if ph != "pake"]
            if not cand:
                return False
            if symbolic:
                k = cand[eng().choose(len(cand), "inj%d_stored" % j)]
                eng().inputs["inj%d_stored" % j] = k
                phase = fresh_enum("inj%d_phase" % j, NONPAKE + shifted)
                eng().inputs["inj%d_phase" % j] = phase
                orig = real_hexstr_to_bytes(stored[k][2])
                pos = fresh_int("inj%d_pos" % j, 0, len(orig))
                x = fresh_int("inj%d_x" % j, 0, 256)
                eng().inputs["inj%d_pos" % j] = pos
                eng().inputs["inj%d_x" % j] = x
                el = [z3.If(pos.t == i, x.t, z3.IntVal(b)) for i, b in enumerate(orig)]
                o = z3.IntVal(0)
                for i, b in enumerate(orig):
                    o = z3.If(pos.t == i, z3.IntVal(b), o)
                eng().assume(x.t != o)
                body = SymBytes(el)
            else:
                k = script["inj%d_stored" % j]
                if k >= len(stored):
                    return False
                phase = script["inj%d_phase" % j]
                orig = bytearray(real_hexstr_to_bytes(stored[k][2]))
                pos, x = script["inj%d_pos" % j], script["inj%d_x" % j]
                if pos >= len(orig):
                    return False
                if orig[pos] == x:
                    x = (x + 1) % 256
                orig[pos] = x
                body = bytes(orig)
        else:
            bodies = [real_hexstr_to_bytes(b) for (_, _, b) in stored]
            bodies += [b"garbage-not-a-ciphertext", dict_to_bytes({"pake_v1": bytes_to_hexstr(b"PAKE|999")}), dict_to_bytes({"no_pake": 1})]
            if symbolic:
                bi = eng().choose(len(bodies), "inj%d_body" % j)
                eng().inputs["inj%d_body" % j] = bi
                # double injections use the labels that can pass for protocol traffic (keeps the product of case splits bounded)
                phase = fresh_enum("inj%d_phase" % j, (PHASES + shifted) if self.ninj == 1 else (["pake", "version", "0", "1"] if j == 0 else ["version", "0", "1"]))
                eng().inputs["inj%d_phase" % j] = phase
            else:
                bi = script["inj%d_body" % j]
                if bi >= len(bodies):
                    return False
                phase = script["inj%d_phase" % j]
            body = bodies[bi]
        if c.conn is None:
            return False
        msg = {"type": "message", "side": side, "phase": phase, "body": body if symbolic else bytes_to_hexstr(body)}
        if symbolic:
            c.rx_log.append({"type": "message", "side": "<symbolic>", "phase": "<symbolic>"})
            c._call("ws_message:message", c.rc.ws_message, msg)
        else:
            c.rx(msg)
        return True

    def run(self, script):
        symbolic = script is None
        canon = canonical(self.cfg, ALL_CONFIGS, False)
        if symbolic:
            span = [p for p in range(self.plo, self.phi) if p <= len(canon)]
            if not span:
                raise core._Abort()
            p = span[eng().choose(len(span), "prefix")]
            victim = eng().choose(2, "victim")
            eng().inputs.update(prefix=p, victim=victim)
        else:
            p, victim = script["prefix"], script["victim"]
        sim = Sim(**sim_args(ALL_CONFIGS[self.cfg]))
        accepted = []       # (side label, phase label, body) of every message that decrypted successfully, on either client
        last = {}
        real_dpk, real_dec = RCV.derive_phase_key, RCV.decrypt_data

        def dpk(key, side, phase):
            last["label"] = (side.get() if isinstance(side, SymEnum) else side, phase.get() if isinstance(phase, SymEnum) else phase)
            return real_dpk(key, side, phase)

        def dec(key, body):
            pt = real_dec(key, body)
            accepted.append(last.get("label", (None, None)) + (body,))
            self._nacc[last.get("client")] = self._nacc.get(last.get("client"), 0) + 1
            return pt
        lab = loader.shadow((RCV, "derive_phase_key", dpk), (RCV, "decrypt_data", dec))
        lab.__enter__()
        self._accepted = accepted
        # wire labels of every peer-side message that passed the Mailbox (de-duplication) and reached Order, per client
        self._reached = [[] for _ in sim.cl]
        self._nacc = {}
        for ci, c in enumerate(sim.cl):
            orig = c.boss._O.got_message

            def rec(side, phase, body, orig=orig, ci=ci):
                sd = side.get() if isinstance(side, SymEnum) else side
                ph = phase.get() if isinstance(phase, SymEnum) else phase
                self._reached[ci].append((sd, ph, body))
                return orig(side, phase, body)
            c.boss._M._O = SimpleRec(rec, c.boss._O)
            origr = c.boss._R.got_message

            def recr(side, phase, body, origr=origr, ci=ci):
                last["client"] = ci
                return origr(side, phase, body)
            c.boss._O._R = SimpleRec(recr, c.boss._R)
        try:
            assert replay_actions(sim, canon[:p])
            if self.reconnect:
                # the victim loses its connection and re-opens: the server replays the whole mailbox, then the adversary adds its own delivery
                X = "AB"[victim]
                if ("drop", X) not in sim.enabled():
                    if symbolic:
                        raise core._Abort()
                    return None
                sim.do(("drop", X))
                if ("open", X) in sim.enabled():
                    sim.do(("open", X))
                c0 = sim.cl[victim]
                # the server answers the re-open but WITHHOLDS its replay of the stored messages (it may deliver what it likes, when it likes):
                # whatever reaches the client next is the adversary's choice below
                for _ in range(6):
                    if c0.conn is None:
                        break
                    sim.world.server.process_all(c0.conn)
                    keep = [m for m in c0.conn.down if m.get("type") != "message"]
                    c0.conn.down.clear()
                    c0.conn.down.extend(keep)
                    while c0.conn is not None and c0.conn.down:
                        sim.do(("rx", X))
            done = 0
            for j in range(self.ninj):
                na0 = sum(self._nacc.values())
                nm0 = sum(len(msgs(c)) + len([e for e in c.ev if e[0] == "versions"]) for c in sim.cl)
                if self.inject(sim, victim, script, j):
                    done += 1
                    if symbolic and sum(self._nacc.values()) > na0:
                        # vacuity witness: an injected message (authentic, honestly labelled, merely early/again) got through decryption ...
                        eng().note("nt:injection-accepted")
                        if sum(len(msgs(c)) + len([e for e in c.ev if e[0] == "versions"]) for c in sim.cl) > nm0:
                            eng().note("nt:injection-delivered")        # ... and all the way to the application
            if not done:
                if symbolic:
                    raise core._Abort()
                return None
            viol = self.violations(sim)
            if not viol:
                sim.settle()
                viol = self.violations(sim)
            # observables for the per-path validation against a concrete run: what each application saw, where each Receive machine ended
            self._obs = [[[m.hex() for m in msgs(c)], len([e for e in c.ev if e[0] == "versions"]), c.state("R"), sorted(set(e[1] for e in c.errors))] for c in sim.cl]
            return viol
        finally:
            lab.__exit__(None, None, None)
            sim.close_world()

    def violations(self, sim):
        out = []
        # every message a client accepted (decrypted successfully) carries exactly the labels and body of a message that an honest
        # client really added to the mailbox: a re-labelled copy must never be accepted, even if its content is authentic
        honest = set()
        for mb in sim.world.server.mailboxes.values():
            for (s_, ph, body) in mb["msgs"]:
                if s_ in (sim.cl[0].side, sim.cl[1].side if len(sim.cl) > 1 else None):
                    honest.add((s_, ph, body))
        # every successful decryption on a client is attributable to a message that reached its Order machine (i.e. passed the
        # Mailbox's filters) with the wire labels and body of an honest message: the labels are judged where they enter the client,
        # so a machine that swaps them on the way to Receive does not hide a forged one
        for ci, c in enumerate(sim.cl):
            reached = [(sd, ph, bytes_to_hexstr(body)) for (sd, ph, body) in getattr(self, "_reached", [[], []])[ci]
                       if ph != "pake" and isinstance(body, bytes)]
            nh = len([m for m in reached if m in honest])
            na = getattr(self, "_nacc", {}).get(ci, 0)
            if na > nh:
                out.append(("a re-labelled message was accepted", "%s decrypted %d messages but only %d honestly-labelled ones reached it (reached: %r)" % (
                    c.name, na, nh, [m[:2] for m in reached][:4])))
        for (s_, ph, body) in getattr(self, "_accepted", []):
            b = bytes_to_hexstr(body) if isinstance(body, bytes) else None
            if (s_, ph, b) not in honest:
                out.append(("a message was accepted under labels it was not encrypted for", "side %r phase %r" % (s_, ph)))
        for i, c in enumerate(sim.cl):
            peer = "AB"[1 - i]
            sent = [payload(peer, n) for n in range(sim.api[1 - i]["sent"])]
            got = msgs(c)
            if got != sent[:len(got)]:
                out.append(("application received content the peer did not send for that phase (or twice / out of order)", "%s got %r, peer sent %r" % (c.name, got, sent)))
            vs = [e[1] for e in c.ev if e[0] == "versions"]
            if len(vs) > 1 or (vs and vs[0] != json.dumps({}, sort_keys=True)):
                out.append(("peer versions delivered twice or altered", "%s: %r" % (c.name, vs)))
        return out

    def scenario(self):
        with shadows():
            v = self.run(None)
        for what, detail in (v or []):
            check(False, "%s: %s" % (what, detail))
        if not v:
            st = eng().stats
            st.obligations += 1
            st.discharged += 1
            st.trivial += 1
        eng().note("nt:explored")
        return getattr(self, "_obs", None)

    def validate(self, inp, observed):
        """the same adversarial delivery, concretely (no engine, no shadows): the applications must see what they saw on the symbolic path"""
        self._obs = None
        self.run(dict(inp))
        if observed is not None and self._obs is not None and list(observed) != self._obs:
            return "symbolic path saw %r, the concrete run of its model %r sees %r" % (observed, {k: v for k, v in inp.items() if not k.startswith("box")}, self._obs)

    def key(self, inp, label):
        return label.split(":")[0]

    def replay(self, inp, label):
        v = self.run(dict(inp))
        if v:
            return "config %s, prefix %d, victim %s, injected %r: %s: %s" % (
                self.cfg, inp["prefix"], "AB"[inp["victim"]], {k: v2 for k, v2 in inp.items() if k.startswith("inj")}, v[0][0], v[0][1])
        return None


class PhaseKeyBinding(Job):
    """derive_phase_key's HKDF purpose depends injectively on (side, phase): run the real function with HKDF and sha256 replaced by
    uninterpreted injective functions and compare the purposes for symbolic label pairs (z3)"""
    name = "phase_key_binding"
    functions = ["_key.derive_phase_key", "_key.derive_key"]
    shadows = ["_key.HKDF / _key.sha256 (uninterpreted injective functions)"]
    must_reach = ("nt:binding",)
    bounds = dict(labels="two (side, phase) pairs, each label one of 4 symbolic strings")

    def scenario(self):
        sides = ["aaaaaaaaaa", "bbbbbbbbbb", "aaaaaaaaaa\u200b", "\u00e9aaaaaaaaaa"]
        phases = ["0", "1", "version", "0\u0661", "0\u200b"]
        s1, s2 = fresh_enum("side1", sides), fresh_enum("side2", sides)
        p1, p2 = fresh_enum("phase1", phases), fresh_enum("phase2", phases)
        eng().inputs.update(side1=s1, side2=s2, phase1=p1, phase2=p2)
        calls = []

        class Sha:
            def __init__(self, b):
                self.b = b

            def digest(self):
                # injective stand-in: 32-byte-wide tagged copy of the input
                return b"<" + self.b.ljust(30, b"\0")[:30] + b">"

        def hk(key, length, salt=None, CTXinfo=b""):
            calls.append(CTXinfo)
            return CTXinfo

        with loader.shadow((KEY, "HKDF", hk), (KEY, "sha256", Sha), (KEY, "isinstance", V.sym_isinstance)):
            try:
                k1 = KEY.derive_phase_key(b"k" * 32, s1, p1)
                k2 = KEY.derive_phase_key(b"k" * 32, s2, p2)
            except UnicodeEncodeError:
                # a label that is not ASCII derives no key at all (the message is then an error, never a delivery)
                eng().note("nt:non-ascii-label-refused")
                return
        same_labels = sym_and(s1 == s2, p1 == p2)
        check(sym_or(same_labels, k1 != k2) if not isinstance(same_labels, bool) else (same_labels or k1 != k2),
              "two different (side, phase) labels derive the same phase key")
        eng().note("nt:binding")

    def replay(self, inp, label):
        try:
            a = KEY.derive_phase_key(b"k" * 32, inp["side1"], inp["phase1"])
            b = KEY.derive_phase_key(b"k" * 32, inp["side2"], inp["phase2"])
        except UnicodeEncodeError:
            return None
        if (inp["side1"], inp["phase1"]) != (inp["side2"], inp["phase2"]) and a == b:
            return "derive_phase_key gives the same key for %r and %r" % ((inp["side1"], inp["phase1"]), (inp["side2"], inp["phase2"]))
        return None


class ReplayAfterLongSession(Job):
    """'never delivers a phase twice' must not wear off: after a session of n messages (so that any bounded record of what has been seen would
    have rolled over) the server replays one stored mailbox message - which one, and to whom, is the solver's choice - and nothing is delivered
    to the application a second time"""
    functions = ["the composed client as in the tamper jobs; _mailbox.Mailbox (record of processed phases), _boss.Boss (in-order phase buffer), _receive.Receive"]
    shadows = ["ideal PAKE/AEAD, fake ClientService (env/client.py)"]
    must_reach = ("nt:replayed",)

    def __init__(self, n):
        self.n = n
        self.name = "replay_after_long_session_%d" % n
        self.bounds = dict(messages_from_B=n, messages_from_A=1, replayed="any one of the first 4, the last 2 or the middle stored mailbox messages (choose), to either client (choose)")

    def build(self):
        sim = Sim(modes=("set", "set"), nmsg=(1, self.n))
        for _ in range(6):      # (Sim.canonical runs at most 400 steps at a time)
            if not sim.canonical(honest_policy(close=False)):
                break
        sim.settle()
        return sim

    def candidates(self, sim):
        msgs = sim.mailbox_msgs(sim.cl[0])
        idx = sorted(set([0, 1, 2, 3, len(msgs) // 2, len(msgs) - 2, len(msgs) - 1]) & set(range(len(msgs))))
        return msgs, idx

    def judge(self, sim):
        for i, c in enumerate(sim.cl):
            vs = [e for e in c.ev if e[0] == "versions"]
            if len(vs) > 1:
                return "%s was handed the peer's versions %d times" % (c.name, len(vs))
            got = [e[1] for e in c.ev if e[0] == "message"]
            want = [payload("AB"[1 - i], k) for k in range(sim.nmsg[1 - i])]
            if got != want:
                return "%s received %d messages (%r...), its peer sent %d" % (c.name, len(got), got[-2:], len(want))
            if c.errors:
                return "%s: %r" % (c.name, c.errors[0])
        return None

    def scenario(self):
        sim = self.build()
        try:
            check(self.judge(sim) is None, "honest long session: " + str(self.judge(sim)))
            msgs, idx = self.candidates(sim)
            k = idx[eng().choose(len(idx), "which")]
            who = eng().choose(2, "to")
            eng().inputs.update(which=k, to=who)
            s_, ph, body = msgs[k]
            sim.cl[who].rx({"type": "message", "side": s_, "phase": ph, "body": body})
            sim.settle()
            p = self.judge(sim)
            check(p is None, "after the server replayed stored message #%d (%s/%s) to %s: %s" % (k, s_, ph, "AB"[who], p))
            eng().note("nt:replayed")
        finally:
            sim.close_world()

    def key(self, inp, label):
        return label.split(":")[0][:60]

    def replay(self, inp, label):
        sim = self.build()
        try:
            msgs, idx = self.candidates(sim)
            s_, ph, body = msgs[inp["which"]]
            sim.cl[inp["to"]].rx({"type": "message", "side": s_, "phase": ph, "body": body})
            sim.settle()
            p = self.judge(sim)
            if p:
                return "session of %d messages, then the server replays stored message #%d (side %s, phase %s) to %s: %s" % (self.n, inp["which"], s_, ph, "AB"[inp["to"]], p)
            return None
        finally:
            sim.close_world()


# ---- full stack: "encrypted ... for exactly that phase": the dilation control phases of a really dilating wormhole share the mailbox with the
# application phases - with a dilating peer and with a peer created WITHOUT dilation (which must never see `dilate-N` plaintexts as messages)
from harness import fullstack as FS  # noqa: E402

FS_CONFIGS = {
    "fs-mixed-old-peer-2msg-reorder": dict(app=False, nmsg=(2, 2), old_peer=True, reorder=True, stoppable=False),
    "fs-both-dilating-2msg-reorder-late": dict(app=False, nmsg=(2, 2), reorder=True, dilate_when="late", stoppable=False),
}


class FPhases(FS.FExplore):
    configs = FS_CONFIGS

    def violations(self, sim, when):
        return FS.app_message_violations(sim, when)


def jobs(tier):
    return _jobs(tier) + FS.make_jobs(FPhases, tier, 2, 3)


def _jobs(tier):
    thorough = tier == "thorough"
    from harness.phase_dispatch import HoldBack
    J = [PhaseKeyBinding(), HoldBack()] + [ReplayAfterLongSession(n) for n in ((20, 70, 150, 300) if thorough else (20, 70, 150))]      # ("encrypted for exactly that phase": a dilate-N plaintext never reaches the application as message N)
    QUICK = [c for c in CONFIGS if c != "alloc-input"]       # (allocate/input entry is exercised in the thorough tier; quick keeps the three set/set orders)
    for cfg in (ALL_CONFIGS if thorough else QUICK):
        n = len(canonical(cfg, ALL_CONFIGS, False))
        step = 3 if thorough else 6
        for lo in range(0, n + 1, step):
            plain = Tamper(cfg, lo, min(lo + step, n + 1), 1, "relabel")
            J.append(plain)
            if cfg == "set-set" and (thorough or lo + step > 12):
                J.append(Tamper(cfg, lo, min(lo + step, n + 1), 1, "relabel", reconnect=True))
            if lo <= 18 < lo + step and cfg in CONFIGS:
                # this prefix range of the honest run contains checkpoints where a stored authentic message is still undelivered: delivering it
                # by injection must be accepted and reach the application (otherwise the exploration never exercises the accepting path)
                plain.must_reach = ("nt:injection-accepted", "nt:injection-delivered")
            if cfg not in RELABEL_ONLY and (thorough or cfg == "set-set"):
                # (the byte-flip family does not depend on the configuration: the quick tier runs it on one)
                J.append(Tamper(cfg, lo, min(lo + step, n + 1), 1, "flip"))
        if thorough:
            for lo in range(0, n + 1):
                J.append(Tamper(cfg, lo, lo + 1, 2, "relabel"))
    return J


ASSUMPTIONS = [
    "ideal PAKE and ideal AEAD: a body decrypts under a phase key only if it is exactly an honest ciphertext made under that key; bit flips, truncation and "
    "extension are all 'not an honest ciphertext' (the flip job makes the changed position and value solver variables; truncate/extend collapse into the garbage body)",
    "the adversary is the server or a third mailbox participant: it can deliver to either client any (side label, phase label, body) with body drawn from every stored mailbox "
    "message (honest ciphertexts of either side, PAKE bodies), garbage, or a fabricated PAKE, at every prefix of a canonical honest run, 1 (quick) / 2 (thorough) injections, "
    "followed by honest delivery of everything else",
    "closing with any error is acceptable for this property (the type of the error is C14's subject)",
]

if __name__ == "__main__":
    sys.exit(common.main("C02", "harness.c02", level="other", extra_assumptions=ASSUMPTIONS,
                         trusted_base=["ideal PAKE/AEAD contracts", "env/client.py server model"],
                         explanation="real composed clients with adversarial mailbox messages whose side label, phase label, body choice, flip position and flip value are solver "
                                     "variables, injected at every prefix of an honest run: the application never receives anything but the peer's plaintexts, in order, once "
                                     "each; plus a z3 check that the phase-key purpose is injective in (side, phase)"))
