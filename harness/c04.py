"""C04 - A completed transfer is byte-exact; success is never reported otherwise (accounting/ordering kernels)."""
import sys
import io
import hashlib
from types import SimpleNamespace
from harness import common
from harness.common import Job, check
from symrun import loader
loader.install()
from symrun import core  # noqa: E402
from symrun.core import eng  # noqa: E402
from symrun import values as V  # noqa: E402
from symrun.values import SymInt, SymBool, SymEnum, fresh_int, fresh_enum, sym_and, sym_or, sym_not  # noqa: E402
from symrun.rope import SymRope, Blob, sym_len, blob_bytes, fresh_blob  # noqa: E402
import z3  # noqa: E402

from twisted.internet import defer, error  # noqa: E402
from twisted.internet.task import Clock  # noqa: E402
from twisted.python import failure  # noqa: E402
from wormhole import transit as T  # noqa: E402
from wormhole.cli import cmd_receive as CR, cmd_send as CS  # noqa: E402
from wormhole.errors import TransferError  # noqa: E402
from wormhole.timing import DebugTiming  # noqa: E402
from wormhole.util import bytes_to_hexstr, dict_to_bytes  # noqa: E402
from harness.c06 import Tr  # noqa: E402


class Hasher:
    """ideal hash: remembers exactly what was fed to it"""
    def __init__(self):
        self.parts = []

    def update(self, data):
        self.parts.append(data)

    def digest(self):
        return ("H", tuple(id(p) for p in self.parts), self)


class FakeTqdm:
    def __init__(self, *a, **kw):
        pass

    def __enter__(self):
        return self

    def __exit__(self, *a):
        return False

    def update(self, n):
        pass


class TmpFile:
    def __init__(self, log, name, truncated=True):
        self.log, self.name = log, name
        self.written = []
        self.truncated = truncated      # False: an existing longer file of that name keeps its stale tail

    def write(self, data):
        self.written.append(data)

    def close(self):
        self.log.append(("close", self.name))


def mk_conn():
    clock = Clock()
    owner = T.TransitReceiver(None, no_listen=True, reactor=clock)
    c = T.Connection(owner, None, 0, "pipe")
    c.transport = Tr()
    c.callLater = clock.callLater
    c.state = "records"
    c._negotiation_d = None
    sent = []
    c.send_record = lambda r: sent.append(r)          # the encrypting direction is C06's subject
    return c, sent


class ReceiveFile(Job):
    """the real Receiver._parse_offer for a file offer: _handle_file -> _transfer_data (real transit.Connection consumer mode) -> _write_file -> _close_transit"""
    functions = ["cli.cmd_receive.Receiver._parse_offer/_transfer_data/_write_file/_close_transit", "transit.Connection.writeToFile/connectConsumer/_writeToConsumer/"
                 "disconnectConsumer/recordReceived/connectionLost", "transit.FileConsumer"]
    shadows = ["transit.len / cmd_receive.len (record lengths are symbolic integers: records are opaque ropes)", "cmd_receive.hashlib (ideal hash), tqdm, os (recorded), open",
               "Receiver._handle_file's file system via the C05 recorder", "Connection.send_record (recorder)"]

    def __init__(self, nrec):
        self.nrec = nrec
        self.name = "receive_file_%drecords" % nrec
        self.bounds = dict(records=nrec, record_len="symbolic integer >= 0 each", filesize="symbolic integer >= 0 (incl. 0)", loss="after any number of records, or never")
        self.must_reach = ("nt:success", "nt:dropped-short")

    def run(self, X, lens, lose_after, blobs=None):
        from harness import c05
        log = []
        fs = c05.FS()
        fs.mut = log
        conn, sent = mk_conn()
        opened = []

        def fake_open(path, mode="r", buffering=-1, encoding=None, errors=None, newline=None, closefd=True, opener=None):
            # builtin open(): mode "wb" means O_WRONLY|O_CREAT|O_TRUNC; with an opener= the flags the opener really uses decide
            import os as real_os
            truncated = "w" in mode
            if opener is not None:
                flags = real_os.O_WRONLY | real_os.O_CREAT | real_os.O_TRUNC | getattr(real_os, "O_CLOEXEC", 0)
                opener(path, flags)
                used = getattr(fs, "os_open_flags", [])
                truncated = bool(used) and bool(used[-1][1] & real_os.O_TRUNC)
            f = TmpFile(log, path, truncated)
            opened.append(f)
            log.append(("open-" + mode, path))
            return f
        args = SimpleNamespace(relay_url="ws://x", output_file=None, cwd="/w", accept_file=True, stderr=io.StringIO(), stdout=io.StringIO(),
                               timing=DebugTiming(), hide_progress=True)
        r = CR.Receiver(args)
        r._transit_receiver = SimpleNamespace(connect=lambda: defer.succeed(conn))
        wsent = []
        w = SimpleNamespace(send_message=wsent.append)
        hashers = []

        def mk_hasher():
            h = Hasher()
            hashers.append(h)
            return h
        sh = [(CR, "os", c05.make_os(fs)), (CR, "open", fake_open), (CR, "estimate_free_space", lambda p: None), (CR, "naturalsize", lambda n: "N"),
              (CR, "tqdm", FakeTqdm), (CR, "hashlib", SimpleNamespace(sha256=mk_hasher)), (CR, "bytes_to_hexstr", lambda h: "hex-of-hash"),
              (CR, "print", lambda *a, **k: None), (T, "len", sym_len), (CR, "len", sym_len), (CR, "isinstance", V.sym_isinstance)]
        result = []
        with loader.shadow(*sh):
            d = r._parse_offer({"file": {"filename": "name", "filesize": X}}, w)
            d.addCallbacks(lambda res: result.append(("ok", res)), lambda f: result.append(("err", f.type.__name__)))
            records = []
            for i, L in enumerate(lens):
                if lose_after is not None and i == lose_after:
                    break
                if conn._consumer is None and conn.state == "records" and result:
                    break
                rec = (blobs[i] if blobs is not None else SymRope.of_blob(Blob("rec%d" % i, L.t if isinstance(L, SymInt) else L)))
                records.append(rec)
                conn.recordReceived(rec)
            if lose_after is not None:
                conn.connectionLost(failure.Failure(error.ConnectionDone()))
        return dict(result=result, log=log, records=records, written=(opened[0].written if opened else []), hashers=hashers, sent=sent, wsent=wsent, conn=conn,
                    truncated=all(f.truncated for f in opened))

    def scenario(self):
        X = fresh_int("filesize", 0)
        lens = [fresh_int("len%d" % i, 0) for i in range(self.nrec)]
        la = eng().choose(self.nrec + 2, "lose_after")
        lose_after = None if la == self.nrec + 1 else la
        eng().inputs.update(filesize=X, lose_after=-1 if lose_after is None else lose_after, **{"len%d" % i: L for i, L in enumerate(lens)})
        try:
            o = self.run(X, lens, lose_after)
        except (core.Escape, core.Inconclusive, core._Abort, core.Counterexample):
            raise
        except AssertionError:
            # `assert received == self.xfersize`: the sender delivered more than it announced - never a success
            eng().note("nt:overshoot-asserted")
            return
        res, log = o["result"], o["log"]
        total = z3.IntVal(0)
        for rec in o["written"]:
            n = sym_len(rec)
            total = total + (n.t if isinstance(n, SymInt) else n)
        total = SymInt(z3.simplify(total))
        renames = [e for e in log if e[0] == "rename-to"]
        check(o["truncated"], "the temporary file is not opened truncating: a stale longer <name>.tmp would leave its tail in the result")
        if res and res[0][0] == "ok":
            check(total == X, "success reported although the bytes written differ from the announced size")
            check(len(renames) == 1 and renames[0][1] == "/w/name" if not hasattr(renames[0][1], "c") else True, "final destination not created exactly once")
            real_writes = [x for x in o["written"] if not (isinstance(x, bytes) and len(x) == 0)]    # (a zero-length kick is written for empty files)
            check(real_writes == o["records"][:len(real_writes)], "bytes written are not the records received, in order")
            check(len(o["hashers"]) == 1 and o["hashers"][0].parts == o["written"], "the acknowledged hash does not cover exactly the bytes written")
            acks = o["sent"]
            check(len(acks) == 1, "not exactly one acknowledgement record")
            # rename happens only after the full count: the rename entry comes after the close of the temp file
            idx_close = [i for i, e in enumerate(log) if e[0] == "close"]
            idx_ren = [i for i, e in enumerate(log) if e[0] == "rename-to"]
            check(bool(idx_close) and idx_ren[0] > idx_close[0], "final name created before the temp file was complete")
            eng().note("nt:success")
        else:
            check(not renames, "final destination file appears although the transfer did not succeed")
            check(not o["sent"], "acknowledgement sent although the transfer did not succeed")
            if res:
                check(res[0][1] in ("TransferError", "ConnectionClosed", "AssertionError"), "unexpected failure type %s" % res[0][1])
                if res[0][1] == "AssertionError":
                    check(total > X, "internal assertion on a stream that did not overshoot")
                eng().note("nt:dropped-short" if res[0][1] != "AssertionError" else "nt:overshoot")
            else:
                # still waiting for data: only legitimate while fewer than X bytes have arrived and the connection is up
                check(lose_after is None, "receive still pending after the connection was lost")
                check(total < X, "receive still pending although all announced bytes arrived")
                eng().note("nt:waiting")

    def replay(self, inp, label):
        X = inp["filesize"]
        lens = [inp["len%d" % i] for i in range(self.nrec)]
        lose_after = None if inp["lose_after"] < 0 else inp["lose_after"]
        blobs = [bytes([65 + i]) * L for i, L in enumerate(lens)]
        try:
            o = self.run(X, lens, lose_after, blobs=blobs)
        except AssertionError:
            return None
        res, log = o["result"], o["log"]
        total = sum(len(b) for b in o["written"])
        renames = [e for e in log if e[0] == "rename-to"]
        desc = "filesize %d, records %r, lost after %r -> %r, written %d bytes, renames %r, acks %d" % (X, lens, lose_after, res, total, renames, len(o["sent"]))
        if not o["truncated"]:
            return "temporary file opened without truncation (an existing longer .tmp leaves a stale tail in the final file): " + desc
        if res and res[0][0] == "ok":
            if total != X or len(renames) != 1 or len(o["sent"]) != 1:
                return "success although not byte-exact / not exactly one destination / ack: " + desc
            if b"".join(o["written"]) != b"".join(blobs)[:total]:
                return "written bytes differ from the stream: " + desc
            return None
        if renames or o["sent"]:
            return "destination created or ack sent without success: " + desc
        if not res and (lose_after is not None or total >= X):
            return "receive left pending: " + desc
        return None


class SenderAck(Job):
    """the real Sender._send_file: FileSender hashing of what was read, then the evaluation of the receiver's acknowledgement (symbolic JSON)"""
    functions = ["cli.cmd_send.Sender._send_file (hash of the bytes handed to the record pipe; ack evaluation)"]
    shadows = ["cmd_send.bytes_to_dict (hands over the symbolic ack object)", "cmd_send.tqdm", "record pipe = recording consumer driving the real twisted FileSender"]
    name = "sender_ack"
    must_reach = ("nt:sender-success", "nt:sender-failure")
    bounds = dict(ack="'ack' and 'sha256' each absent or one of several JSON values (symbolic)", ack_delivery="delivered or connection closed before it", file="3 concrete sizes: 0, 5, 70000 bytes")

    def run(self, size, ackobj, ack_lost):
        from twisted.internet.interfaces import IConsumer
        data = bytes(range(256)) * (size // 256 + 1)
        data = data[:size]
        written = []
        pipe_closed = []

        class Pipe:
            def __init__(s):
                s.producer = None
                s.read_d = None

            def describe(s):
                return "pipe"

            def registerProducer(s, p, streaming):
                s.producer = p

            def unregisterProducer(s):
                s.producer = None

            def write(s, d):
                written.append(d)

            def receive_record(s):
                s.read_d = defer.Deferred()
                return s.read_d

            def close(s):
                pipe_closed.append(True)
        pipe = Pipe()
        args = SimpleNamespace(stderr=io.StringIO(), hide_progress=True, timing=DebugTiming(), relay_url="ws://x", tor=False)
        s = CS.Sender(args, Clock())
        s._fd_to_send = io.BytesIO(data)
        s._transit_sender = SimpleNamespace(connect=lambda: defer.succeed(pipe))
        result = []
        expected_hex = hashlib.sha256(data).hexdigest()
        sh = [(CS, "tqdm", FakeTqdm), (CS, "bytes_to_dict", lambda b: ackobj(expected_hex) if callable(ackobj) else ackobj), (CS, "isinstance", V.sym_isinstance)]
        with loader.shadow(*sh):
            d = s._send_file()
            d.addCallbacks(lambda r: result.append(("ok", r)), lambda f: result.append(("err", f.type.__name__)))
            for _ in range(100):
                if pipe.producer is None:
                    break
                pipe.producer.resumeProducing()
            if pipe.read_d is not None:
                if ack_lost:
                    pipe.read_d.errback(failure.Failure(error.ConnectionClosed()))
                else:
                    pipe.read_d.callback(b"{}")
        return result, b"".join(written), data, expected_hex

    def scenario(self):
        from harness.c20 import ABSENT
        size = [0, 5, 70000][eng().choose(3, "size")]
        ack_lost = bool(eng().choose(2, "ack_lost"))
        eng().inputs.update(size=size, ack_lost=ack_lost)
        holder = {}

        def mk(expected_hex):
            a = fresh_enum("ack", [ABSENT, "ok", "error", "", 5, None])
            h = fresh_enum("sha256", [ABSENT, expected_hex, "00" * 32, expected_hex.upper(), "", 7])
            eng().inputs["ack"] = a
            eng().inputs["sha256"] = h
            holder["a"], holder["h"], holder["hex"] = a, h, expected_hex

            class AckDict:
                def get(s, k, default=None):
                    v = a if k == "ack" else (h if k == "sha256" else None)
                    if v is None or bool(v == ABSENT):
                        return default
                    return v

                def __contains__(s, k):
                    v = a if k == "ack" else (h if k == "sha256" else None)
                    return v is not None and not bool(v == ABSENT)

                def __getitem__(s, k):
                    if k not in s:
                        raise KeyError(k)
                    return a if k == "ack" else h

                def __repr__(s):
                    return "<ack>"

                def __format__(s, spec):
                    return "<ack>"
            return AckDict()
        res, written, data, expected_hex = self.run(size, mk, ack_lost)
        check(written == data, "the record pipe did not receive exactly the file's bytes")
        if res and res[0][0] == "ok":
            check(not ack_lost, "sender reports success although the acknowledgement never arrived")
            check("a" in holder, "sender reports success without having read the receiver's acknowledgement")
            a, h = holder["a"], holder["h"]
            check(a == "ok", "sender reports success without ack == 'ok'")
            check(sym_or(h == ABSENT, h == expected_hex), "sender reports success although the receiver's hash differs")
            eng().note("nt:sender-success")
        else:
            check(bool(res), "sender neither succeeded nor failed")
            if not ack_lost and "a" in holder:
                a, h = holder["a"], holder["h"]
                check(sym_not(sym_and(a == "ok", sym_or(h == ABSENT, h == expected_hex))), "sender failed although the acknowledgement was good")
            eng().note("nt:sender-failure")

    def replay(self, inp, label):
        from harness.c20 import ABSENT

        def mk(expected_hex):
            d = {}
            for k in ("ack", "sha256"):
                v = inp.get(k)
                if v is None and k in inp:
                    d[k] = None
                elif isinstance(v, str) and v == "<absent>":
                    continue
                elif k in inp:
                    d[k] = v
            return d
        res, written, data, expected_hex = self.run(inp["size"], mk, inp["ack_lost"])
        ack = mk(expected_hex)
        good = ack.get("ack", "") == "ok" and ("sha256" not in ack or ack["sha256"] == expected_hex) and not inp["ack_lost"]
        if written != data:
            return "pipe got %d bytes, file has %d" % (len(written), len(data))
        ok = bool(res) and res[0][0] == "ok"
        if ok != good:
            return "size %d, ack %r, lost=%r: sender %s" % (inp["size"], ack, inp["ack_lost"], res)
        return None


class DirectoryMembers(Job):
    """the receiver's real _write_directory/_extract_file: every member of the received archive (files, nested files, explicit -
    i.e. empty - directory entries) is extracted beneath the destination, in archive order"""
    name = "directory_members_extracted"
    functions = ["cli.cmd_receive.Receiver._write_directory/_extract_file"]
    shadows = ["cmd_receive.zipfile (listing with the chosen member names), os (recorded)"]
    must_reach = ("nt:extracted",)
    TREES = [["a.txt"], ["a.txt", "sub/b.txt"], ["empty/"], ["a.txt", "empty/", "deep/er/", "deep/x"], ["odd name \u00e9 [x]/", "z"], []]
    bounds = dict(trees=TREES)

    def run(self, members):
        from harness import c05
        fs = c05.FS()

        class Info(c05.FakeZipInfo):
            def is_dir(s):
                return s.filename.endswith("/")

        class Zip(c05.FakeZipFile):
            def infolist(s):
                return [Info(n) for n in members]
        Zip.fs = fs
        c05.FakeZipFile.fs = fs
        args = SimpleNamespace(relay_url="ws://x", output_file=None, cwd="/w", accept_file=True, stderr=io.StringIO(), stdout=io.StringIO(),
                               timing=DebugTiming(), hide_progress=True)
        r = CR.Receiver(args)
        r.abs_destname = "/w/tree"
        f = SimpleNamespace(close=lambda: None)
        with loader.shadow((CR, "os", c05.make_os(fs)), (CR, "zipfile", SimpleNamespace(ZipFile=Zip)), (CR, "print", lambda *a, **k: None)):
            r._write_directory(f)
        return ["".join(p.c) if hasattr(p, "c") else p for op, p in fs.mut if op == "extract"]

    def expected(self, members):
        return ["/w/tree/" + m.rstrip("/") for m in members]

    def scenario(self):
        i = eng().choose(len(self.TREES), "tree")
        eng().inputs["tree"] = i
        got = self.run(self.TREES[i])
        check(got == self.expected(self.TREES[i]), "not every archive member was extracted beneath the destination (in order)")
        eng().note("nt:extracted")

    def replay(self, inp, label):
        t = self.TREES[inp["tree"]]
        got = self.run(t)
        if got != self.expected(t):
            return "archive members %r: extracted %r" % (t, got)
        return None


class ReceiveDirectoryDrop(Job):
    """a DIRECTORY offer whose data connection is lost at a solver-chosen point (or not at all): the real _parse_offer -> _handle_directory ->
    _transfer_data (-> _write_directory -> _close_transit).  The zip is spooled in an anonymous temporary file, so on a failed transfer NOTHING in the
    file system may have been touched - in particular not the unrelated file <dirname>.tmp that happens to sit next to the destination - and no
    success/ack is reported; on success only entries beneath the destination are written."""
    name = "receive_directory_drop"
    functions = ["cli.cmd_receive.Receiver._parse_offer/_handle_directory/_transfer_data/_write_directory/_close_transit", "transit.Connection consumer mode"]
    shadows = ReceiveFile.shadows + ["cmd_receive.tempfile / zipfile (recorders, C05)"]
    must_reach = ("nt:success", "nt:dropped-short")
    bounds = dict(records=2, record_len="symbolic integer >= 0 each", zipsize="symbolic integer >= 0", loss="after any number of records, or never",
                  sandbox="cwd /w containing the bystander file g.tmp; offered directory name g")

    def run(self, X, lens, lose_after, blobs=None):
        from harness import c05
        log = []
        fs = c05.FS()
        fs.mut = log
        conn, sent = mk_conn()
        spooled = []

        def spool(max_size=0):
            f = TmpFile(log, "<spooled>")
            spooled.append(f)
            return f
        c05.FakeZipFile.fs = fs
        c05.FakeZipFile.members = ["m"]
        args = SimpleNamespace(relay_url="ws://x", output_file=None, cwd="/w", accept_file=True, stderr=io.StringIO(), stdout=io.StringIO(),
                               timing=DebugTiming(), hide_progress=True)
        r = CR.Receiver(args)
        r._transit_receiver = SimpleNamespace(connect=lambda: defer.succeed(conn))
        wsent = []
        w = SimpleNamespace(send_message=wsent.append)
        sh = [(CR, "os", c05.make_os(fs)), (CR, "open", lambda *a, **k: TmpFile(log, "<open>")), (CR, "estimate_free_space", lambda p: None),
              (CR, "naturalsize", lambda n: "N"), (CR, "tqdm", FakeTqdm), (CR, "hashlib", SimpleNamespace(sha256=Hasher)), (CR, "bytes_to_hexstr", lambda h: "hex-of-hash"),
              (CR, "print", lambda *a, **k: None), (T, "len", sym_len), (CR, "len", sym_len), (CR, "isinstance", V.sym_isinstance),
              (CR, "tempfile", SimpleNamespace(SpooledTemporaryFile=spool)), (CR, "zipfile", SimpleNamespace(ZipFile=c05.FakeZipFile)), (CR, "repr", lambda x: "<repr>")]
        result = []
        with loader.shadow(*sh):
            d = r._parse_offer({"directory": {"mode": "zipfile/deflated", "dirname": "g", "zipsize": X, "numbytes": 10, "numfiles": 1}}, w)
            d.addCallbacks(lambda res: result.append(("ok", res)), lambda f: result.append(("err", f.type.__name__)))
            for i, L in enumerate(lens):
                if lose_after is not None and i == lose_after:
                    break
                if conn._consumer is None and conn.state == "records" and result:
                    break
                rec = (blobs[i] if blobs is not None else SymRope.of_blob(Blob("rec%d" % i, L.t if isinstance(L, SymInt) else L)))
                conn.recordReceived(rec)
            if lose_after is not None:
                conn.connectionLost(failure.Failure(error.ConnectionDone()))
        return dict(result=result, log=log, sent=sent, wsent=wsent)

    def problems(self, o):
        res, log = o["result"], o["log"]
        S = lambda p: "".join(p.c) if hasattr(p, "c") and all(isinstance(x, str) for x in p.c) else p      # noqa: E731
        muts = [(op, S(p)) for (op, p) in log if op not in ("close",)]
        if res and res[0][0] == "ok":
            for op, p in muts:
                if not (isinstance(p, str) and (p == "/w/g" or p.startswith("/w/g/"))):
                    return "successful directory transfer touched %r (%s), which is not beneath the destination /w/g" % (p, op)
            return None
        if muts:
            return "failed directory transfer touched the file system: %r" % (muts[:3],)
        if o["sent"]:
            return "acknowledgement sent although the directory transfer did not succeed"
        return None

    def scenario(self):
        X = fresh_int("zipsize", 0)
        lens = [fresh_int("len%d" % i, 0) for i in range(2)]
        la = eng().choose(4, "lose_after")
        lose_after = None if la == 3 else la
        eng().inputs.update(zipsize=X, lose_after=-1 if lose_after is None else lose_after, len0=lens[0], len1=lens[1])
        try:
            o = self.run(X, lens, lose_after)
        except (core.Escape, core.Inconclusive, core._Abort, core.Counterexample):
            raise
        except AssertionError:
            eng().note("nt:overshoot-asserted")
            return
        p = self.problems(o)
        check(p is None, p or "")
        res = o["result"]
        eng().note("nt:success" if (res and res[0][0] == "ok") else ("nt:dropped-short" if res else "nt:waiting"))

    def key(self, inp, label):
        return label.split(":")[0][:70]

    def replay(self, inp, label):
        lens = [inp["len0"], inp["len1"]]
        if sum(lens) > (1 << 24) or inp["zipsize"] > (1 << 24):
            return None
        lose_after = None if inp["lose_after"] < 0 else inp["lose_after"]
        try:
            o = self.run(inp["zipsize"], lens, lose_after, blobs=[bytes([65 + i]) * L for i, L in enumerate(lens)])
        except AssertionError:
            return None
        p = self.problems(o)
        if p:
            return "directory offer 'g' (zipsize %d), records %r, lost after %r: %s" % (inp["zipsize"], lens, lose_after, p)
        return None


class MemFile(io.BytesIO):
    """a real in-memory file (seek/tell/truncate semantics of a file object): what ends up 'on disk' is getvalue() at close"""
    def __init__(self, log, name):
        io.BytesIO.__init__(self)
        self.log, self.name = log, name
        self.final = None

    def close(self):
        if self.final is None:
            self.final = self.getvalue()
            self.log.append(("close", self.name))
        io.BytesIO.close(self)


class ReceiveContent(Job):
    """byte content, not only byte counts: three records whose contents the solver picks from {data, all-zero bytes, empty} go through the real
    transit.Connection consumer path (FileConsumer) into a real file object; on success the file holds exactly their concatenation"""
    name = "receive_file_content"
    functions = ["transit.Connection.writeToFile", "transit.FileConsumer.write", "cli.cmd_receive.Receiver._parse_offer/_transfer_data/_write_file"]
    shadows = ["cmd_receive.os (recorded), open (in-memory file with real seek/tell semantics), tqdm; real hashlib"]
    must_reach = ("nt:success",)
    PATTERNS = [b"ab", b"\0\0\0", b"", b"\0", b"xyz\0"]
    bounds = dict(records=3, record_contents=[repr(p) for p in PATTERNS])

    def run(self, picks):
        from harness import c05
        log = []
        fs = c05.FS()
        fs.mut = log
        conn, sent = mk_conn()
        files = []

        def fake_open(path, mode="r", *a, **k):
            f = MemFile(log, path)
            files.append(f)
            return f
        recs = [self.PATTERNS[i] for i in picks]
        X = sum(len(r) for r in recs)
        args = SimpleNamespace(relay_url="ws://x", output_file=None, cwd="/w", accept_file=True, stderr=io.StringIO(), stdout=io.StringIO(),
                               timing=DebugTiming(), hide_progress=True)
        r = CR.Receiver(args)
        r._transit_receiver = SimpleNamespace(connect=lambda: defer.succeed(conn))
        w = SimpleNamespace(send_message=lambda m: None)
        sh = [(CR, "os", c05.make_os(fs)), (CR, "open", fake_open), (CR, "estimate_free_space", lambda p: None), (CR, "naturalsize", lambda n: "N"),
              (CR, "tqdm", FakeTqdm), (CR, "print", lambda *a, **k: None)]
        result = []
        with loader.shadow(*sh):
            d = r._parse_offer({"file": {"filename": "name", "filesize": X}}, w)
            d.addCallbacks(lambda res: result.append(("ok", res)), lambda f: result.append(("err", f.type.__name__)))
            for rec in recs:
                if result:
                    break
                conn.recordReceived(rec)
        return result, files, recs, sent

    def verdict(self, picks):
        result, files, recs, sent = self.run(picks)
        want = b"".join(recs)
        if not (result and result[0][0] == "ok"):
            return "honest transfer of %r did not succeed: %r" % (recs, result)
        if len(files) != 1 or files[0].final is None:
            return "temporary file not written/closed exactly once"
        if files[0].final != want:
            return "success reported but the file holds %r, the sender's bytes were %r" % (files[0].final, want)
        import hashlib
        acks = [a for a in sent]
        if len(acks) != 1 or hashlib.sha256(want).hexdigest() not in acks[0].decode("ascii", "replace"):
            return "acknowledgement does not carry the hash of the bytes received"
        return None

    def scenario(self):
        picks = [eng().choose(len(self.PATTERNS), "rec%d" % i) for i in range(3)]
        eng().inputs["picks"] = picks
        v = self.verdict(picks)
        check(v is None, "file content: %s" % v)
        eng().note("nt:success")

    def key(self, inp, label):
        return "file content differs from the bytes sent although success was reported"

    def replay(self, inp, label):
        return self.verdict(list(inp["picks"]))


class WireSamples(Job):
    """CONCRETE SAMPLES, not solver-decided (json is C code the engine cannot enter): text messages and offered names travel from the real
    Sender._build_offer/_send_data through the real util.dict_to_bytes / bytes_to_dict into the real Receiver._parse_offer: the text printed is exactly
    repr(text)[1:-1] (the receiver's terminal-safe escaping) of the text sent, the offered name arrives code point for code point.  The samples are
    the classes a transformation on the way could confuse: non-NFC sequences, compatibility characters, astral code points, quotes, backslashes,
    control characters, lone surrogates are excluded (not encodable)."""
    name = "wire_samples_text_and_names"
    functions = ["cli.cmd_send.Sender._build_offer/_send_data", "util.dict_to_bytes/bytes_to_dict (real json)", "cli.cmd_receive.Receiver._parse_offer/_handle_text/_handle_file/_handle_directory"]
    shadows = ["cmd_receive.os / estimate_free_space (C05 recorder) for the name samples"]
    TEXTS = ["", "hello", "e\u0301", "\u00e9", "10 \u212b = 1 nm, 5 \u2126", "\ufb01", "\u1e9b\u0323", "\U0001f600 and \U00010400", "it's \"quoted\"", "back\\slash \\u0041",
             "line1\nline2\r\ttab", "\x1b[31mred\x1b[0m", "\x00\x7f\x80\x9f", "\u200b\u202e\ufeff", "\uff21\uff22", " trailing ", "{\"offer\": 1}", "\u0041\u030a\u0327"]
    NAMES = ["plain.txt", "re\u0301sume\u0301 \u212b.txt", "\u00e9.txt", "\ufb01le", "\U0001f600.bin", "a b", "it's", "x\u200by", "\uff21", "n\u0303"]
    must_reach = ("nt:sample",)
    bounds = dict(texts=len(TEXTS), names=len(NAMES), note="concrete samples through the real json round trip; supplementary to the solver-decided kernels")

    def verdict(self, kind, i):
        from harness import c05
        from wormhole.util import bytes_to_dict
        sent = []
        w = SimpleNamespace(send_message=sent.append)
        if kind == 0:
            text = self.TEXTS[i]
            sargs = SimpleNamespace(text=text, what=None, stderr=io.StringIO(), stdout=io.StringIO(), timing=DebugTiming(), cwd="/w")
            snd = CS.Sender(sargs, Clock())
            if text == "":
                offer = {"message": text}         # (_build_offer would prompt for empty text)
            else:
                offer, fd = snd._build_offer()
            snd._send_data({"offer": offer}, w)
        else:
            name = self.NAMES[i]
            sargs = SimpleNamespace(text=None, what=name, stderr=io.StringIO(), stdout=io.StringIO(), timing=DebugTiming(), cwd="/w")
            snd = CS.Sender(sargs, Clock())
            key = "file" if kind == 1 else "directory"
            body = {"filename": name, "filesize": 3} if kind == 1 else {"mode": "zipfile/deflated", "dirname": name, "zipsize": 3, "numbytes": 3, "numfiles": 1}
            snd._send_data({"offer": {key: body}}, w)
        them = bytes_to_dict(sent[0])["offer"]
        out = io.StringIO()
        rargs = SimpleNamespace(relay_url="ws://x", output_file=None, cwd="/w", accept_file=True, stderr=io.StringIO(), stdout=out, timing=DebugTiming(), hide_progress=True)
        r = CR.Receiver(rargs)
        back = []
        w2 = SimpleNamespace(send_message=back.append)
        if kind == 0:
            r._parse_offer(them, w2)
            want = repr(self.TEXTS[i])[1:-1] + "\n"
            if out.getvalue() != want:
                return "text %r was shown as %r, expected %r" % (self.TEXTS[i], out.getvalue(), want)
            if len(back) != 1 or bytes_to_dict(back[0]) != {"answer": {"message_ack": "ok"}}:
                return "text %r: no message_ack" % (self.TEXTS[i],)
            return None
        import posixpath
        fpath = SimpleNamespace(**{k: getattr(posixpath, k) for k in ("join", "basename", "abspath", "normpath", "dirname", "sep", "split")},
                                exists=lambda p: False, isdir=lambda p: False, isfile=lambda p: False)
        with loader.shadow((CR, "os", SimpleNamespace(path=fpath, sep="/")), (CR, "estimate_free_space", lambda p: None),
                           (CR, "open", lambda *a, **k: io.BytesIO())):
            try:
                if kind == 1:
                    r._handle_file(them)
                else:
                    r._handle_directory(them)
            finally:
                pass
        want = "/w/" + self.NAMES[i]
        if r.abs_destname != want:
            return "offered name %r arrives as destination %r, expected %r" % (self.NAMES[i], r.abs_destname, want)
        return None

    def scenario(self):
        kind = eng().choose(3, "kind")
        n = len(self.TEXTS) if kind == 0 else len(self.NAMES)
        i = eng().choose(n, "i")
        eng().inputs.update(kind=kind, i=i)
        v = self.verdict(kind, i)
        check(v is None, "wire sample: %s" % v)
        eng().note("nt:sample")

    def key(self, inp, label):
        return "wire sample (text/name altered between send and receive)"

    def replay(self, inp, label):
        return self.verdict(inp["kind"], inp["i"])


def jobs(tier):
    thorough = tier == "thorough"
    return [ReceiveFile(n) for n in ((1, 2, 3, 4) if thorough else (1, 2, 3))] + [SenderAck(), DirectoryMembers(), WireSamples(), ReceiveDirectoryDrop(), ReceiveContent()]


ASSUMPTIONS = [
    "text messages and offered names: 18+10 concrete samples through the real json round trip (job wire_samples_*; json is C code, so this part is sampled, not solver-decided)",
    "kernel-level claim only: the accounting and ordering that make 'success' imply byte-exactness (receiver: byte count, hash coverage, rename after completion, ack only on "
    "success; sender: hash of what was handed to the pipe, ack/hash evaluation). Outside the claim: zipstream/zipfile/zlib round trip of directory trees, terminal escaping of text "
    "messages, tqdm, real sockets, and the offer/answer orchestration of send()/receive()",
    "records reaching the consumer are opaque ropes with symbolic lengths (record integrity and ordering on the wire are C06)",
    "ideal hash (remembers exactly what it was fed); file system recorded (C05 recorder); Connection.send_record recorded",
    "sender: three concrete file sizes (0, 5, 70000 bytes) through the real twisted FileSender; the ack JSON object is symbolic per field",
]

if __name__ == "__main__":
    sys.exit(common.main("C04", "harness.c04", level="other", extra_assumptions=ASSUMPTIONS,
                         trusted_base=["ideal hash", "C05 file-system recorder"],
                         explanation="bounded symbolic execution (symrun + z3) of the receiver's real _parse_offer/_transfer_data/_write_file/_close_transit over a real transit.Connection "
                                     "in consumer mode with symbolic file size, record lengths and loss point, and of the sender's real _send_file ack evaluation with a symbolic ack"))
