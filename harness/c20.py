"""C20 - Peer connection hints are untrusted: never a crash, only valid hints dialled."""
import sys
import builtins
from harness import common
from harness.common import Job, check
from symrun import loader
loader.install()
from symrun import core  # noqa: E402
from symrun.core import eng  # noqa: E402
from symrun import values as V  # noqa: E402
from symrun.values import SymEnum, SymBool, fresh_enum, sym_and, sym_or, sym_not  # noqa: E402
import z3  # noqa: E402

from twisted.internet import defer  # noqa: E402
from twisted.internet.task import Clock  # noqa: E402
from wormhole import _hints as H, transit as T  # noqa: E402
from wormhole._hints import DirectTCPV1Hint, TorTCPV1Hint, RelayV1Hint  # noqa: E402


class _Absent:
    def __repr__(self):
        return "<absent>"


ABSENT = _Absent()

DOM = {
    "type": [ABSENT, "direct-tcp-v1", "tor-tcp-v1", "relay-v1", "bogus-v9", 5, ["direct-tcp-v1"], {"t": 1}],
    "hostname": [ABSENT, "host.example", 5, None, "a..b"],
    "port": [ABSENT, 1234, -1, True, "80", None],
    "priority": [ABSENT, 0.0, 3, "high", None, [1], {"p": 1}],
}
SUB_DOM = dict(DOM)
NONDICT = [5, None, "a-string", [1, 2], True]


class SymHintDict:
    """a JSON object in hint position: every field is absent or carries a value of any JSON type (SymEnum per field,
    decided lazily - the execution forks only where the code under test looks)"""

    def __init__(self, name, with_hints, depth=0, fixed=None):
        self.name = name
        self.f = {}
        for k, dom in DOM.items():
            if fixed and k in fixed:
                self.f[k] = fixed[k]
            else:
                self.f[k] = fresh_enum("%s.%s" % (name, k), dom)
        if with_hints:
            subs = [SymHintDict("%s.h%d" % (name, i), False, depth + 1) for i in range(2)]
            self.subs = subs
            self.f["hints"] = fresh_enum("%s.hints" % name,
                                         [ABSENT, [], [subs[0]], [subs[0], subs[1]], [subs[0], "junk"], 5, "str", None, {"a": 1}, [None]])
        else:
            self.subs = []

    def _present(self, k):
        v = self.f.get(k)
        if v is None:
            return False
        if isinstance(v, SymEnum):
            return not bool(v == ABSENT)
        return v is not ABSENT

    def get(self, k, default=None):
        return self.f[k] if self._present(k) else default

    def __contains__(self, k):
        return self._present(k)

    def __getitem__(self, k):
        if not self._present(k):
            raise KeyError(k)
        return self.f[k]

    def keys(self):
        return [k for k in self.f if self._present(k)]

    def __iter__(self):
        return iter(self.keys())

    def items(self):
        return [(k, self.f[k]) for k in self.keys()]

    def __repr__(self):
        return "<hint-dict %s>" % self.name

    def __format__(self, spec):
        return repr(self)

    def __sym_isinstance__(self, classes):
        return builtins.dict in classes or builtins.object in classes

    def concretise(self, m):
        out = {}
        for k, v in self.f.items():
            cv = V.concretise(v, m) if isinstance(v, SymEnum) else v
            if cv is ABSENT:
                continue
            if isinstance(cv, list):
                cv = [x.concretise(m) if isinstance(x, SymHintDict) else x for x in cv]
            out[k] = cv
        return out


def sym_isinstance(obj, cls):
    classes = cls if isinstance(cls, tuple) else (cls,)
    if hasattr(obj, "__sym_isinstance__"):
        return obj.__sym_isinstance__(classes)
    return V.sym_isinstance(obj, cls)


def conc(x):
    """force a (possibly symbolic) value concrete on this path by forking"""
    if isinstance(x, SymEnum):
        return conc(x.get())
    if isinstance(x, SymHintDict):
        out = {}
        for k in list(x.f):
            if x._present(k):
                out[k] = conc(x.f[k])
        return out
    if isinstance(x, list):
        return [conc(y) for y in x]
    if isinstance(x, tuple):
        return type(x)(*[conc(y) for y in x]) if hasattr(x, "_fields") else tuple(conc(y) for y in x)
    return x


class LogRec:
    def __init__(self):
        self.m = []

    def msg(self, *a, **kw):
        self.m.append(a)

    def err(self, *a, **kw):
        self.m.append(("err",) + a)


_BADHOST = {}


def bad_hostname(h):
    """what Twisted's HostnameEndpoint decides: a name that cannot be IDNA-encoded makes connect() return an ALREADY FAILED Deferred"""
    if not isinstance(h, str):
        return False
    if h not in _BADHOST:
        import warnings
        from twisted.internet.endpoints import HostnameEndpoint as _HE
        with warnings.catch_warnings():
            warnings.simplefilter("ignore")
            _BADHOST[h] = bool(getattr(_HE(Clock(), h, 80), "_badHostname", False))
    return _BADHOST[h]


class EP:
    def __init__(self, kind, reactor, host, port, *a, **kw):
        self.kind, self.host, self.port = kind, host, port
        self.d = None

    def connect(self, f):
        h = self.host.get() if isinstance(self.host, SymEnum) else self.host
        if self.kind == "host" and bad_hostname(h):
            self.d = defer.fail(ValueError("invalid hostname: %s" % (h,)))
        else:
            self.d = defer.Deferred()
        return self.d


def ep_class(kind, rec):
    def make(reactor, host, port, *a, **kw):
        e = EP(kind, reactor, host, port)
        rec.append(e)
        return e
    return make


def is_ip(real):
    def f(a):
        return real(a.get() if isinstance(a, SymEnum) else a)
    return f


def hint_shadows(rec, log):
    return [(H, "isinstance", sym_isinstance), (H, "TCP4ClientEndpoint", ep_class("tcp4", rec)),
            (H, "TCP6ClientEndpoint", ep_class("tcp6", rec)), (H, "HostnameEndpoint", ep_class("host", rec)),
            (H, "isIPAddress", is_ip(H.isIPAddress)), (H, "isIPv6Address", is_ip(H.isIPv6Address)), (H, "log", log)]


SHADOWS = ["_hints.isinstance (proxies count as their JSON type)", "_hints.TCP4ClientEndpoint/TCP6ClientEndpoint/HostnameEndpoint (recorders)",
           "_hints.isIPAddress/isIPv6Address (concretise then real)", "_hints.log, transit.log"]


def inst(v, classes):
    if isinstance(v, SymEnum):
        return v.isinstance_of(classes)
    return isinstance(v, classes)


def sym_valid_tcp(d, types):
    """SymBool: object d denotes a TCP hint of one of `types` with str hostname and int port (no forking)"""
    if not isinstance(d, SymHintDict):
        return False
    t = d.f["type"]
    t_ok = sym_or(*[t == x for x in types])
    return sym_and(t_ok, inst(d.f["hostname"], str), inst(d.f["port"], int))


def was_dialled(rec, d):
    """dialled as this very hint (identity of the received values)"""
    return any(e.host is d.f["hostname"] and e.port is d.f["port"] for e in rec)


def dialled_value(rec, d):
    """SymBool: some dialled endpoint has the same host and port values (equal hints are merged and dialled once)"""
    if not rec:
        return False
    return sym_or(*[sym_and(e.host == d.f["hostname"], e.port == d.f["port"]) for e in rec])


def valid_tcp(d, allow_tor):
    """reference: does this JSON value denote a dialable direct hint?"""
    if not isinstance(d, dict):
        return None
    t = d.get("type", "")
    if not isinstance(t, str) or t not in (("direct-tcp-v1", "tor-tcp-v1") if allow_tor else ("direct-tcp-v1",)):
        return None
    h, p = d.get("hostname", ABSENT), d.get("port", ABSENT)
    if not isinstance(h, str) or not isinstance(p, int):
        return None
    if t == "tor-tcp-v1":
        return None      # never dialled without Tor
    return (h, p)


def expected_targets(hints):
    """reference dial set for a concrete JSON hint list (no Tor): direct hints + sub-hints of relay entries"""
    out = []
    if not isinstance(hints, list):
        return out
    for d in hints:
        if not isinstance(d, dict):
            continue
        t = d.get("type", "")
        if t == "relay-v1":
            subs = d.get("hints", [])
            if isinstance(subs, list):
                for s in subs:
                    v = valid_tcp(s, True)
                    if v:
                        out.append(v)
        else:
            v = valid_tcp(d, True)
            if v:
                out.append(v)
    return out


PRIO_ANY = [ABSENT, 0.0, 3, "high", [1], 10 ** 400]      # (a JSON integer beyond the range of a double is still a number)
PRIO_NUM = [ABSENT, 0.0, 3, 2.5]


def fresh_hint_list(n, relay_ok=True, honest=False):
    """n == 1 and not honest: one fully symbolic entry (object with every field of any JSON type, or a non-object).
    Otherwise: n well-formed direct/relay entries whose priorities (own and sub-hints') are symbolic - of any JSON
    type, or numeric when `honest` (the shape get_connection_hints/encode_hint produce) - so that cross-entry
    sorting/hashing/merging is covered without multiplying the per-field case split."""
    hints = []
    if n == 1 and not honest:
        kind = eng().choose(2, "hint0_is_object")
        if kind == 0:
            return [SymHintDict("hint0", relay_ok)]
        return [fresh_enum("hint0_nondict", NONDICT)]
    prio = PRIO_NUM if honest else PRIO_ANY
    for i in range(n):
        shape = eng().choose(3 if honest else 2, "hint%d_shape" % i)
        if shape == 2:
            # "twins": entries naming one and the same target (equal host and port, distinct JSON values), each either a direct or a Tor hint,
            # priorities symbolic: an entry this side cannot dial (Tor) must not keep a dialable twin from being dialled
            hints.append(SymHintDict("hint%d" % i, False, fixed=dict(type=fresh_enum("hint%d.type" % i, ["direct-tcp-v1", "tor-tcp-v1"]), port=int("4100"),
                                                                   hostname="".join(["twin", ".example"]),
                                                                   priority=fresh_enum("hint%d.priority" % i, prio))))
        elif shape == 0:
            hints.append(SymHintDict("hint%d" % i, False, fixed=dict(type="direct-tcp-v1", port=4000 + i,
                                                                   hostname=("other%d.example" % i) if (honest or i) else fresh_enum("hint0.hostname", ["other0.example", "a..b"]),
                                                                   priority=fresh_enum("hint%d.priority" % i, prio))))
        else:
            h = SymHintDict("hint%d" % i, False, fixed=dict(type="relay-v1", hostname=ABSENT, port=ABSENT, priority=ABSENT))
            h.subs = [SymHintDict("hint%d.h%d" % (i, j), False,
                                  fixed=dict(type="direct-tcp-v1", hostname="relay.example", port=5000 + j,
                                             priority=fresh_enum("hint%d.h%d.priority" % (i, j), prio)))
                      for j in range(2)]
            h.f["hints"] = fresh_enum("hint%d.hints" % i, [[h.subs[0]], [h.subs[0], h.subs[1]]])
            hints.append(h)
    return hints


class TransitHints(Job):
    functions = ["transit.Common.add_connection_hints", "transit.Common.connect/_connect (contender construction)", "_hints.parse_tcp_v1_hint",
                 "_hints.endpoint_from_hint_obj", "_hints.describe_hint_obj"]
    shadows = SHADOWS

    def __init__(self, n, sender, honest=False):
        self.n, self.sender, self.honest = n, sender, honest
        self.name = "transit_hints_%s%d_%s" % ("honest" if honest else ("n" if n == 1 else "pairs"), n, "sender" if sender else "receiver")
        self.bounds = dict(hint_list_len=n, per_field_values={k: [repr(x) for x in v] for k, v in DOM.items()},
                           relay_sub_hints="0..2 objects or junk, or a non-list", non_object_entries=[repr(x) for x in NONDICT])
        self.must_reach = ("nt:dialled",) + (("nt:nothing-dialled",) if n == 1 and not honest else ())

    def run(self, hints, symbolic):
        rec, log = [], LogRec()
        clock = Clock()
        sh = hint_shadows(rec, log) if symbolic else hint_shadows(rec, log)[1:4] + [(H, "log", log)]
        sh += [(T, "log", log)]
        if symbolic:
            sh += [(T, "isinstance", sym_isinstance)]
        err = None
        with loader.shadow(*sh):
            o = (T.TransitSender if self.sender else T.TransitReceiver)(None, no_listen=True, reactor=clock)
            try:
                o.add_connection_hints(hints)
            except (core.Escape, core.Inconclusive, core._Abort, core.Counterexample):
                raise
            except Exception as e:
                core.check_leak(e)
                err = ("add_connection_hints", type(e).__name__, str(e)[:100])
            if err is None:
                o.get_connection_hints()
                o.set_transit_key(b"k" * 32)
                res = []
                try:
                    d = o.connect()
                    d.addCallbacks(lambda r: res.append("ok"), lambda f: res.append(f.type.__name__))
                    # relay contenders are started by timers
                    for _ in range(6):
                        if clock.getDelayedCalls():
                            clock.advance(max(0, min(dc.getTime() for dc in clock.getDelayedCalls()) - clock.seconds()))
                        if res:
                            break
                except (core.Escape, core.Inconclusive, core._Abort, core.Counterexample):
                    raise
                except Exception as e:
                    core.check_leak(e)
                    err = ("connect", type(e).__name__, str(e)[:100])
                pending = [e for e in rec if e.d is not None and not e.d.called]
                if err is None and res and pending:
                    # a junk hint must not abort the attempt: connect() may only give up once no dialled attempt is left
                    err = ("connect", res[0], "connect() finished (%s) although %d dialled attempt(s) were still pending" % (res[0], len(pending)))
                if err is None and res and res[0] not in ("ok", "TransitError", "CancelledError", "ValueError"):
                    err = ("connect", res[0], "connect() failed with an unexpected error")
        return rec, err

    def scenario(self):
        hints = fresh_hint_list(self.n, honest=self.honest)
        eng().inputs["hints"] = hints
        rec, err = self.run(hints, True)
        if err is not None:
            check(False, "%s raised %s" % (err[0], err[1]))
            return
        ndial = 0
        for h in hints:
            if not isinstance(h, SymHintDict):
                continue
            d = was_dialled(rec, h)
            v = sym_valid_tcp(h, ["direct-tcp-v1"])
            if d:
                check(v, "direct hint dialled although it is invalid")
            elif self.honest:
                check(sym_or(sym_not(v), dialled_value(rec, h)), "direct hint of the shape this side produces was not dialled")
            ndial += d
            for j, sub in enumerate(h.subs):
                dj = was_dialled(rec, sub)
                lists_with = [lst for lst in h.f["hints"].vals if isinstance(lst, list) and any(x is sub for x in lst)]
                in_list = sym_or(*[h.f["hints"] == lst for lst in lists_with]) if lists_with else False
                vj = sym_and(h.f["type"] == "relay-v1", in_list, sym_valid_tcp(sub, ["direct-tcp-v1"]))
                if dj:
                    check(vj, "relay sub-hint dialled although it is invalid")
                elif self.honest:
                    check(sym_or(sym_not(vj), dialled_value(rec, sub)), "relay sub-hint of the shape this side produces was not dialled")
                ndial += dj
        known = [h for h in hints if isinstance(h, SymHintDict)]
        for e in rec:
            check(any(e.host is h.f["hostname"] or any(e.host is sub.f["hostname"] for sub in h.subs) for h in known),
                  "an endpoint was dialled that is not one of the received hints")
        eng().note("nt:dialled" if ndial else "nt:nothing-dialled")

    def key(self, inp, label):
        return label

    def replay(self, inp, label):
        hints = inp["hints"]
        rec, err = self.run(hints, False)
        if err is not None:
            return "%s(%r) raised %s: %s" % (err[0], hints, err[1], err[2])
        got = set((repr(e.host), repr(e.port)) for e in rec)
        exp = set((repr(h), repr(p)) for h, p in expected_targets(hints))
        if not got <= exp:
            return "hints %r: dialled %r, but the valid hints are only %r" % (hints, sorted(got), sorted(exp))
        if self.honest and got != exp:
            return "well-formed hints %r: dialled %r, expected %r" % (hints, sorted(got), sorted(exp))
        return None


class ParseHint(Job):
    """_hints.parse_hint on one arbitrary JSON value (used by the dilation Manager.use_hints)"""
    functions = ["_hints.parse_hint", "_hints.parse_tcp_v1_hint"]
    shadows = SHADOWS
    name = "parse_hint_any"
    must_reach = ("nt:parsed-direct", "nt:parsed-relay", "nt:rejected")
    bounds = dict(value="one JSON value: object with per-field domains as in transit_hints, or a non-object")

    def scenario(self):
        hints = fresh_hint_list(1)
        eng().inputs["hints"] = hints
        log = LogRec()
        with loader.shadow(*hint_shadows([], log)):
            try:
                r = H.parse_hint(hints[0])
                if isinstance(r, RelayV1Hint):
                    r = RelayV1Hint(list(r.hints))
            except (core.Escape, core.Inconclusive, core._Abort, core.Counterexample):
                raise
            except Exception as e:
                check(False, "parse_hint raised %s" % type(e).__name__)
                return
        h = hints[0]
        if not isinstance(h, SymHintDict):
            check(r is None, "hint object from a non-object")
            eng().note("nt:rejected")
            return
        v_tcp = sym_valid_tcp(h, ["direct-tcp-v1", "tor-tcp-v1"])
        is_relay = h.f["type"] == "relay-v1"
        if r is None:
            check(sym_not(sym_or(v_tcp, is_relay)), "parse_hint rejected a valid hint")
            eng().note("nt:rejected")
        elif isinstance(r, RelayV1Hint):
            check(is_relay, "relay object from a non-relay hint")
            got = list(r.hints)
            for sub in h.subs:
                present = any(x.hostname is sub.f["hostname"] and x.port is sub.f["port"] for x in got)
                lists_with = [lst for lst in h.f["hints"].vals if isinstance(lst, list) and any(y is sub for y in lst)]
                in_list = sym_or(*[h.f["hints"] == lst for lst in lists_with]) if lists_with else False
                vj = sym_and(in_list, sym_valid_tcp(sub, ["direct-tcp-v1", "tor-tcp-v1"]))
                check(vj if present else sym_not(vj), "relay sub-hint %s although it is %s" % ("kept" if present else "dropped", "invalid" if present else "valid"))
            check(len(got) <= len(h.subs), "relay object has more sub-hints than were sent")
            eng().note("nt:parsed-relay")
        else:
            check(v_tcp, "hint object from an invalid hint")
            check(r.hostname is h.f["hostname"] and r.port is h.f["port"], "hint object fields are not the received ones")
            eng().note("nt:parsed-direct")

    def replay(self, inp, label):
        v = inp["hints"][0]
        try:
            r = H.parse_hint(v)
            if isinstance(r, RelayV1Hint):
                r = RelayV1Hint(list(r.hints))
        except Exception as e:
            return "parse_hint(%r) raised %s: %s" % (v, type(e).__name__, e)
        if r is None:
            if isinstance(v, dict) and valid_struct(v):
                return "parse_hint(%r) rejected a valid hint" % (v,)
            return None
        if isinstance(r, RelayV1Hint):
            subs = v.get("hints", [])
            exp = [(s["hostname"], s["port"]) for s in subs if isinstance(s, dict) and valid_struct(s) and s.get("type") != "relay-v1"] if isinstance(subs, list) else []
            got = [(h.hostname, h.port) for h in r.hints]
            return None if got == exp else "parse_hint(%r): relay sub-hints %r, valid ones %r" % (v, got, exp)
        if not (isinstance(v, dict) and valid_struct(v)):
            return "parse_hint(%r) produced %r from an invalid hint" % (v, r)
        return None


def valid_struct(d):
    t = d.get("type", "")
    if t == "relay-v1":
        return True
    return isinstance(t, str) and t in ("direct-tcp-v1", "tor-tcp-v1") and isinstance(d.get("hostname", ABSENT), str) \
        and isinstance(d.get("port", ABSENT), int)


class RoundTrip(Job):
    """hints this side produces are parsed back into the same targets: parse_hint(encode_hint(h)) and
    add_connection_hints(get_connection_hints()) for symbolic hostname/port/priority"""
    name = "encode_parse_roundtrip"
    functions = ["_hints.encode_hint", "_hints.parse_hint", "transit.Common.get_connection_hints", "transit.Common.add_connection_hints"]
    shadows = SHADOWS
    must_reach = ("nt:direct", "nt:relay", "nt:tor")
    bounds = dict(hostname="symbolic over 4 strings", port="symbolic over 5 ints", priority="symbolic over 4 numbers",
                  kinds="direct, tor, relay with 1..2 sub-hints")

    def mk(self, name):
        return dict(hostname=fresh_enum(name + ".hostname", ["host.example", "10.1.2.3", "::1", ""]),
                    port=fresh_enum(name + ".port", [1, 80, 65535, 0, 2 ** 31]),
                    priority=fresh_enum(name + ".priority", [0.0, 1.0, -2.5, 7]))

    def scenario(self):
        kind = eng().choose(3, "kind")
        eng().inputs["kind"] = kind
        a, b = self.mk("a"), self.mk("b")
        eng().inputs.update(a=a, b=b)
        log = LogRec()
        with loader.shadow(*hint_shadows([], log)):
            if kind == 0:
                h = DirectTCPV1Hint(a["hostname"], a["port"], a["priority"])
            elif kind == 1:
                h = TorTCPV1Hint(a["hostname"], a["port"], a["priority"])
            else:
                n = eng().choose(2, "nsub") + 1
                eng().inputs["nsub"] = n
                subs = [DirectTCPV1Hint(x["hostname"], x["port"], x["priority"]) for x in (a, b)[:n]]
                h = RelayV1Hint(tuple(subs))
            try:
                h2 = H.parse_hint(H.encode_hint(h))
            except (core.Escape, core.Inconclusive, core._Abort, core.Counterexample):
                raise
            except Exception as e:
                check(False, "encode/parse raised %s" % type(e).__name__)
                return
        if kind == 2:
            check(isinstance(h2, RelayV1Hint) and len(list(h2.hints)) == len(h.hints), "relay hint changed shape")
            for x, y in zip(h.hints, list(h2.hints)):
                check(sym_and(x.hostname == y.hostname, x.port == y.port, x.priority == y.priority), "relay sub-hint changed")
            eng().note("nt:relay")
        else:
            check(type(h2) is type(h), "hint type changed")
            check(sym_and(h.hostname == h2.hostname, h.port == h2.port, h.priority == h2.priority), "hint fields changed")
            eng().note("nt:direct" if kind == 0 else "nt:tor")

    def replay(self, inp, label):
        a, b = inp["a"], inp["b"]
        if inp["kind"] == 0:
            h = DirectTCPV1Hint(a["hostname"], a["port"], a["priority"])
        elif inp["kind"] == 1:
            h = TorTCPV1Hint(a["hostname"], a["port"], a["priority"])
        else:
            h = RelayV1Hint(tuple(DirectTCPV1Hint(x["hostname"], x["port"], x["priority"]) for x in (a, b)[:inp.get("nsub", 1)]))
        try:
            h2 = H.parse_hint(H.encode_hint(h))
        except Exception as e:
            return "parse_hint(encode_hint(%r)) raised %r" % (h, e)
        if isinstance(h, RelayV1Hint):
            if not isinstance(h2, RelayV1Hint) or [tuple(x) for x in h.hints] != [tuple(x) for x in h2.hints]:
                return "%r came back as %r" % (h, h2)
        elif h2 != h or type(h2) is not type(h):
            return "%r came back as %r" % (h, h2)
        return None


def jobs(tier):
    thorough = tier == "thorough"
    J = [ParseHint(), RoundTrip()]
    for sender in (True, False):
        J.append(TransitHints(1, sender))
        J.append(TransitHints(2, sender))
        J.append(TransitHints(2, sender, honest=True))
        if thorough:
            J.append(TransitHints(3, sender))
            J.append(TransitHints(3, sender, honest=True))
    from harness import c20_dilation
    J += c20_dilation.jobs(tier)
    return J


ASSUMPTIONS = [
    "hint JSON values range over the per-field domains listed in the bounds (every JSON type for every field, absent fields, non-object entries, relay "
    "sub-hint lists of 0..2 objects or junk or non-lists); values outside these representatives are not explored",
    "JSON encode/decode between the peers is the identity on these values",
    "no Tor (tor=None): tor-tcp-v1 hints are valid but never dialled; bool counts as int (Python semantics) for 'integer port'",
    "endpoint classes replaced by recorders; the dial set is compared as a set (duplicates merge)",
]

if __name__ == "__main__":
    sys.exit(common.main("C20", "harness.c20", level="other", extra_assumptions=ASSUMPTIONS,
                         trusted_base=["reference functions valid_tcp/expected_targets in harness/c20.py (12 lines, the property's reading)"],
                         explanation="bounded symbolic execution (symrun + z3) of the real hint parsing/dialling code on JSON values whose every field is a solver-chosen "
                                     "value of any JSON type: no exception, dial set == valid hints, encode/parse round trip"))
