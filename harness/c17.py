"""C17 - Dilation never blocks shutdown; an incapable peer is reported, not awaited."""
import sys
from harness import common
from symrun import loader
loader.install()
from harness.dsim import DExplore, make_jobs, make_random_jobs as make_drandom_jobs  # noqa: E402

CONFIGS = {
    "stop-anywhere": dict(app=True, stoppable=True),
    # shutdown must complete whatever happened to the connections: here any link may die at any moment (e.g. between its KCM and the selection turn)
    "stop-anywhere-any-loss": dict(app=False, stoppable=True, lose_any=True),
    "old-peer": dict(app=True, stoppable=True, peer_inert=True),
    "ping-timeout": dict(app=False, stoppable=True, silent_after_connect=True),
}


class Shutdown(DExplore):
    configs = CONFIGS

    def final_phase(self, sim):
        # "closing always completes, whatever state dilation is in": every side that has not been stopped yet is stopped now
        did = False
        for a in list(sim.enabled()):
            if a[0] == "stop" and a in sim.enabled():
                sim.do(a)
                did = True
        return did

    def violations(self, sim, when):
        out = []
        w = sim.w
        for s in w.sides:
            for e in s.errors:
                out.append(("internal failure", "%s: %s %s: %s" % (s.name, e[0], e[1], e[2])))
        for l in w.logged:
            out.append(("error logged", l))
        if when != "settled":
            return out
        for i, s in enumerate(w.sides):
            if sim.stopped_req[i]:
                if s.m is None:
                    # (full stack) closed before dilate() was ever called: nothing of dilation to shut down, but close() itself must complete
                    if not s.stopped:
                        out.append(("stop() did not complete", "%s never dilated; close() pending" % s.name))
                    continue
                if not s.stopped:
                    out.append(("stop() did not complete", "%s is %s" % (s.name, s.state())))
                for port, lp in w.net.ports.items():
                    if lp.factory._connector._manager is s.m:
                        out.append(("listener left open after stop", "%s port %d" % (s.name, port)))
                for (a, b) in w.net.links:
                    for t in (a, b):
                        p = getattr(t.proto, "_wrappedProtocol", t.proto)
                        if getattr(getattr(p, "_connector", None), "_manager", None) is s.m and not t.lost:
                            out.append(("connection left open after stop", "%s link %d" % (s.name, t.link)))
        # peer cannot dilate: connect() must fail, not hang
        if sim.peer_inert and sim.started[0] and getattr(sim, "peer_versions_seen", lambda: True)():
            for n, res in sim.connect_d.items():
                if not res:
                    out.append(("connect() left pending although the peer cannot dilate", n))
                elif res[0] != ("err", "OldPeerCannotDilateError"):
                    out.append(("connect() to a non-dilating peer did not fail with OldPeerCannotDilateError", "%s: %r" % (n, res[0][:2])))
        return out


# ---- the statement itself: CLOSING A WORMHOLE on which dilate() was called completes (real Boss/Terminator/Dilator on top of the Manager)
from harness import fullstack as FS  # noqa: E402

FS_CONFIGS = {
    "fs-close-anywhere": dict(app=True),
    "fs-close-anywhere-dilate-late": dict(app=False, dilate_when="late", lose_any=True),
    "fs-old-peer": dict(app=True, old_peer=True),
    "fs-old-peer-dilate-late": dict(app=True, old_peer=True, dilate_when="late"),
}


class FShutdown(FS.FExplore):
    configs = FS_CONFIGS

    def final_phase(self, sim):
        did = False
        for a in list(sim.enabled()):
            if a[0] == "stop" and a in sim.enabled():
                sim.do(a)
                did = True
        return did

    def violations(self, sim, when):
        out = Shutdown.violations(self, sim, when)
        if when == "settled":
            for i, s in enumerate(sim.w.sides):
                if sim.stopped_req[i] and s.stopped and s.c.state("B") != "S4_closed":
                    out.append(("closed notification although the Boss is not closed", "%s: %s" % (s.name, s.c.state("B"))))
                if sim.stopped_req[i] and s.m is not None and s.state() != "STOPPED":
                    out.append(("wormhole closed but dilation not stopped", "%s is %s" % (s.name, s.state())))
        return out + FS.app_message_violations(sim, when)


def jobs(tier):
    return make_jobs(Shutdown, tier, 2, 3) + make_drandom_jobs(Shutdown, tier) + FS.make_jobs(FShutdown, tier, 2, 3) + FS.make_random_jobs(FShutdown, tier, per_cfg=32)


ASSUMPTIONS = [
    "in-memory network env/dilation.py, ideal Noise; Terminator/Boss are not in this run: Manager.stop() is what Dilator.stop() calls and when_stopped() is what "
    "releases Terminator.stoppedD (the mailbox side of close() is C08)",
    "bounded: every prefix of one canonical run + k arbitrary steps incl. stop() on either side + fair completion",
]

if __name__ == "__main__":
    sys.exit(common.main("C17", "harness.c17", level="other", extra_assumptions=ASSUMPTIONS,
                         trusted_base=["env/dilation.py network model", "env/noise.py ideal Noise"],
                         explanation="bounded symbolic schedules over two real dilation stacks with stop() at any step: stop completes, no listener/connection left, "
                                     "and connect() fails with OldPeerCannotDilateError when the peer's versions lack dilation"))
