"""C05 - `wormhole receive` writes only where it said it would, and never clobbers."""
import sys
import random
import posixpath
from types import SimpleNamespace
from harness import common
from harness.common import Job, check
from symrun import loader
loader.install()
from symrun import core  # noqa: E402
from symrun.core import eng  # noqa: E402
from symrun import values as V  # noqa: E402
from symrun.values import SymStr, SymBool, fresh_str, sym_and, sym_or, sym_not  # noqa: E402
import z3  # noqa: E402
from wormhole.cli import cmd_receive as CR  # noqa: E402
from wormhole.timing import DebugTiming  # noqa: E402

CWD = "/w"
# the sandbox: /w contains file "f", directory "d" (with file "d/f" and subdirectory "d/s"), file "f.tmp"
FILES = {"/w/f", "/w/d/f", "/w/f.tmp", "/w/\u00e9", "/w/d/\u00e9", "/w/g.tmp"}     # (g.tmp: a bystander next to a destination "g" that does not exist)     # (U+00E9: a precomposed name whose decomposed spelling e+U+0301 is a different file name)
DIRS = {"/", "/w", "/w/d", "/w/d/s", "/w/\u00ea"}
LINKS = {"/w/l": "/e/p"}      # a dangling symbolic link in the cwd (its target does not exist)


def S(x):
    return x if isinstance(x, SymStr) else SymStr(list(x))


def s_eq(a, b):
    return S(a) == b


# ---------------------------------------------------------------- posixpath on (possibly symbolic) strings
class SymPath:
    sep = "/"

    @staticmethod
    def join(a, *ps):
        path = S(a)
        for b in ps:
            b = S(b)
            if b.startswith("/"):
                path = b
            elif len(path) == 0 or path.endswith("/"):
                path = path + b
            else:
                path = path + "/" + b
        return path

    @staticmethod
    def basename(p):
        p = S(p)
        i = p.rfind("/") + 1
        return p[i:]

    @staticmethod
    def normpath(p):
        p = S(p)
        if len(p) == 0:
            return S(".")
        initial = 1 if p.startswith("/") else 0
        if initial and p.startswith("//") and not p.startswith("///"):
            initial = 2
        comps = p.split("/")
        new = []
        for c in comps:
            if len(c) == 0 or bool(c == "."):
                continue
            if not bool(c == "..") or (not initial and not new) or (new and bool(new[-1] == "..")):
                new.append(c)
            elif new:
                new.pop()
        out = SymStr([])
        for i, c in enumerate(new):
            if i:
                out = out + "/"
            out = out + c
        if initial:
            out = S("/" * initial) + out
        return out if len(out) else S(".")

    @staticmethod
    def abspath(p):
        p = S(p)
        if not p.startswith("/"):
            p = SymPath.join(CWD, p)
        return SymPath.normpath(p)

    @staticmethod
    def realpath(p):
        """abspath, then resolution of the sandbox's symbolic links (whole-path links only)"""
        q = SymPath.abspath(p)
        for link, target in LINKS.items():
            if len(q) == len(link) and bool(q == link):
                return S(target)
        return q

    @staticmethod
    def lexists(p):
        return SymPath._is(p, FILES | DIRS | set(LINKS))

    @staticmethod
    def _is(p, names):
        p = S(p)
        cands = [n for n in names if len(n) == len(p)]
        if not cands:
            return False
        return bool(sym_or(*[p == n for n in cands]))

    @staticmethod
    def exists(p):
        return SymPath._is(p, FILES | DIRS)

    @staticmethod
    def isdir(p):
        return SymPath._is(p, DIRS)

    @staticmethod
    def isfile(p):
        return SymPath._is(p, FILES)

    @staticmethod
    def dirname(p):
        return SymPath.split(p)[0]

    @staticmethod
    def split(p):
        p = S(p)
        i = p.rfind("/") + 1
        head, tail = p[:i], p[i:]
        if len(head) and not bool(head == "/" * len(head)):
            head = head.rstrip("/")
        return head, tail


class FS:
    """records mutations instead of performing them"""
    def __init__(self):
        self.mut = []       # (op, path)

    def remove(self, p):
        self.mut.append(("remove", S(p)))

    def rename(self, a, b):
        self.mut.append(("rename-from", S(a)))
        self.mut.append(("rename-to", S(b)))

    def chmod(self, p, mode):
        self.mut.append(("chmod", S(p)))


class FakeFile:
    def __init__(self, fs, name):
        self.fs, self.name = fs, name

    def close(self):
        pass


def make_os(fs):
    import os as real_os

    def os_open(path, flags, mode=0o777, *a, **kw):
        # low-level open (as used by an `opener=`): recorded with its flags; returns a fake descriptor
        fs.mut.append(("os.open", S(path)))
        fs.os_open_flags = getattr(fs, "os_open_flags", []) + [(path, flags)]
        return 1000 + len(fs.os_open_flags)
    def makedirs(p, mode=0o777, exist_ok=False):
        fs.mut.append(("makedirs", S(p)))

    def mkdir(p, mode=0o777):
        fs.mut.append(("mkdir", S(p)))
    ns = SimpleNamespace(path=SymPath, sep="/", remove=fs.remove, rename=fs.rename, chmod=fs.chmod, environ=real_os.environ,
                         getcwd=lambda: CWD, open=os_open, makedirs=makedirs, mkdir=mkdir)
    for k in dir(real_os):
        if k.startswith("O_"):
            setattr(ns, k, getattr(real_os, k))
    return ns


class FakeZipInfo:
    def __init__(self, name):
        self.filename = name
        self.external_attr = 0o644 << 16

    def is_dir(self):
        n = S(self.filename)
        return bool(n.endswith("/")) if len(n) else False


class FakeZipFile:
    """ZipFile.extract(member, path): CPython's contract - strips drive/leading separators and drops '', '.', '..' components, then
    writes beneath `path` only"""
    members = []
    fs = None

    def __init__(self, f, mode="r"):
        pass

    def __enter__(self):
        return self

    def __exit__(self, *a):
        return False

    def infolist(self):
        return [FakeZipInfo(n) for n in FakeZipFile.members]

    def extract(self, member, path=None):
        name = S(member)
        comps = [c for c in name.split("/") if len(c) and not bool(c == ".") and not bool(c == "..")]
        target = S(path)
        for c in comps:
            target = target + "/" + c
        FakeZipFile.fs.mut.append(("extract", target))
        return target


def under(p, d):
    """p == d or p is beneath d  (SymBool|bool)"""
    p, d = S(p), S(d)
    alts = []
    if len(p) == len(d):
        alts.append(p == d)
    if len(p) > len(d) + 1:
        alts.append(sym_and(p[:len(d)] == d, p[len(d):len(d) + 1] == "/"))
    return sym_or(*alts) if alts else False


def single_child_of(p, parent):
    """p = parent + '/' + one non-empty component that is not '.' or '..' and contains no '/'"""
    p = S(p)
    pre = parent.rstrip("/") + "/"
    if len(p) <= len(pre):
        return False
    comp = p[len(pre):]
    ok = [p[:len(pre)] == pre, SymBool(z3.And([c != 47 for c in [V.zcp(x) for x in comp.c]]))]
    ok.append(sym_not(comp == ".") if len(comp) == 1 else True)
    ok.append(sym_not(comp == "..") if len(comp) == 2 else True)
    return sym_and(*ok)


class ReceivePaths(Job):
    functions = ["cli.cmd_receive.Receiver._decide_destname", "_remove_existing", "_ask_permission", "_handle_file", "_handle_directory", "_write_file",
                 "_extract_file", "_write_directory"]
    shadows = ["cmd_receive.os (posixpath re-implemented over symbolic strings, differential-tested against the real posixpath; fixed sandbox tree for "
               "exists/isdir/isfile; remove/rename/chmod recorded)", "cmd_receive.open / tempfile / zipfile / input (recorders)", "cmd_receive.estimate_free_space (None)"]

    def __init__(self, mode, n, outsel, accept, nmember):
        self.mode, self.n, self.outsel, self.accept, self.nm = mode, n, outsel, accept, nmember
        self.name = "receive_%s_name%d_out-%s_%s_m%d" % (mode, n, outsel, "accept" if accept else "ask", nmember)
        self.bounds = dict(offer=mode, offered_name_len=n, output_file=outsel, accept_file=accept, zip_member_name_len=nmember,
                           alphabet="every Unicode code point except surrogates (so '/', '.', NUL, anything)",
                           sandbox="cwd /w with file f, file f.tmp, directory d containing file f and directory s, dangling symlink l -> /e/p")
        # vacuity: the outcome classes this slice of the input space must contain (a transfer that completes, one that is refused, a hostile archive)
        mr = []
        if mode == "file":
            if n >= 1 or outsel in ("file", "new"):
                mr.append("nt:done")
            if outsel in ("none", "dir") or not accept:
                mr.append("nt:rejected")
        else:
            if n >= 1:
                mr += ["nt:rejected", "nt:malicious-zip"] + (["nt:done"] if nmember >= 1 else [])
            else:
                mr.append("nt:rejected")
        self.must_reach = tuple(mr)

    def run(self, name, member, answer):
        fs = FS()
        FakeZipFile.fs = fs
        FakeZipFile.members = [member] if member is not None else []
        out = {"none": None, "new": "new", "file": "f", "dir": "d"}[self.outsel]
        import io
        args = SimpleNamespace(relay_url="ws://x", output_file=out, cwd=CWD, accept_file=self.accept, stderr=io.StringIO(), stdout=io.StringIO(),
                               timing=DebugTiming(), hide_progress=True)

        def fake_open(path, mode="r"):
            fs.mut.append(("open-" + mode, S(path)))
            return FakeFile(fs, path)
        tmpmod = SimpleNamespace(SpooledTemporaryFile=lambda max_size=0: FakeFile(fs, "<spooled>"))
        sh = [(CR, "os", make_os(fs)), (CR, "open", fake_open), (CR, "tempfile", tmpmod), (CR, "zipfile", SimpleNamespace(ZipFile=FakeZipFile)),
              (CR, "input", lambda prompt="": answer), (CR, "estimate_free_space", lambda p: None), (CR, "naturalsize", lambda n: "N"),
              (CR, "isinstance", V.sym_isinstance), (CR, "repr", lambda x: "<repr>"), (CR, "print", lambda *a, **k: None)]
        r = CR.Receiver(args)
        verdict = "done"
        try:
            with loader.shadow(*sh):
                if self.mode == "file":
                    f = r._handle_file({"file": {"filename": name, "filesize": 10}})
                    announced = r.abs_destname
                    r._write_file(f)
                else:
                    f = r._handle_directory({"directory": {"mode": "zipfile/deflated", "dirname": name, "zipsize": 10, "numbytes": 10, "numfiles": 1}})
                    announced = r.abs_destname
                    r._write_directory(f)
        except CR.TransferRejectedError:
            verdict = "rejected"
            announced = getattr(r, "abs_destname", None)
        except ValueError:
            verdict = "malicious-zip"
            announced = getattr(r, "abs_destname", None)
        return verdict, announced, fs.mut, out

    def scenario(self):
        name = fresh_str("name", self.n)
        member = fresh_str("member", self.nm) if self.mode == "directory" else None
        answer = ["y", "", "n"][eng().choose(3, "answer")] if not self.accept else "y"
        eng().inputs.update(name=name, answer=answer)
        if member is not None:
            eng().inputs["member"] = member
        try:
            verdict, D, mut, out = self.run(name, member, answer)
        except (core.Escape, core.Inconclusive, core._Abort, core.Counterexample):
            raise
        except Exception as e:
            core.check_leak(e)
            check(False, "receive raised %s on an offered name" % type(e).__name__)
            return
        self._offered = name
        self.oracle_sym(verdict, D, mut, out)
        eng().note("nt:%s" % verdict)
        return (verdict, len(mut))

    def oracle_sym(self, verdict, D, mut, out):
        base = CWD
        if mut:
            check(D is not None, "mutation before a destination was decided")
        if D is not None and mut:
            # the announced destination is a proper child of the cwd / of the --output-file directory, or the --output-file target itself
            offered = getattr(self, "_offered", None)
            if out is None:
                check(single_child_of(D, CWD), "destination is not a child of the working directory named by the offer's basename")
                if offered is not None:
                    check(S(D) == SymPath.join(CWD, SymPath.basename(offered)), "destination is not named by the offer's basename")
            elif out == "d":
                check(single_child_of(D, CWD + "/d"), "destination is not a child of the --output-file directory")
                if offered is not None:
                    check(S(D) == SymPath.join(CWD + "/d", SymPath.basename(offered)), "destination is not named by the offer's basename")
            else:
                check(S(D) == CWD + "/" + out, "destination is not the --output-file target")
        for op, p in mut:
            allowed = [under(p, D)]
            if len(S(p)) == len(S(D)) + 4:
                allowed.append(S(p) == (S(D) + ".tmp"))
            check(sym_or(*allowed), "%s outside the announced destination" % op)
            if op == "remove":
                check(not SymPath.isdir(p), "an existing directory was removed")
                check(out is not None, "an existing file was removed without --output-file")
            if op in ("extract", "chmod", "makedirs", "mkdir") and self.mode == "directory":
                check(sym_and(under(p, D), sym_not(S(p) == D) if len(S(p)) == len(S(D)) else True), "zip member written/chmod-ed outside the destination directory")
        if out is None and D is not None:
            # without --output-file an existing destination makes the transfer fail before any mutation
            if SymPath.exists(D):
                check(verdict == "rejected" and not mut, "existing destination was not refused (or something was touched first)")

    # concrete replay on the real os.path (the sandbox predicates stay: no real file system is touched)
    def replay(self, inp, label):
        name, member, answer = inp["name"], inp.get("member"), inp.get("answer", "y")
        with real_paths():
            try:
                verdict, D, mut, out = self.run(name, member, answer)
            except Exception as e:
                return "offer name %r%s: receive raised %r" % (name, (" member %r" % member) if member else "", e)
            D = None if D is None else "".join(D.c) if isinstance(D, SymStr) else D
            mut = [(op, "".join(p.c) if isinstance(p, SymStr) else p) for op, p in mut]
        desc = "offer name %r%s, output_file=%r, accept_file=%r, answer=%r -> %s, destination %r, mutations %r" % (
            name, (" zip member %r" % member) if member else "", out, self.accept, answer, verdict, D, mut)
        if mut and D is None:
            return desc
        parent = CWD if out is None else (CWD + "/d" if out == "d" else None)
        if mut and D is not None:
            if parent is not None:
                comp = D[len(parent) + 1:] if D.startswith(parent + "/") else None
                if comp is None or comp in ("", ".", "..") or "/" in comp:
                    return "destination is not a proper child of %s: %s" % (parent, desc)
                if comp != posixpath.basename(name):
                    return "destination is not named by the offer's basename: " + desc
            elif D != CWD + "/" + out:
                return "destination is not the --output-file target: " + desc
        for op, p in mut:
            if not (p == D or p == D + ".tmp" or p.startswith(D + "/")):
                return "%s outside the announced destination: %s" % (op, desc)
            if op == "remove" and (p in DIRS or out is None):
                return "illegitimate removal: " + desc
            if op in ("extract", "chmod", "makedirs", "mkdir") and self.mode == "directory" and not p.startswith(D + "/"):
                return "zip member outside the destination directory: " + desc
        if out is None and D is not None and (D in FILES or D in DIRS) and (verdict != "rejected" or mut):
            return "existing destination not refused: " + desc
        return None


class real_paths:
    """run with the real posixpath functions instead of the symbolic model (concrete names only); the sandbox predicates stay"""
    NAMES = ("join", "basename", "normpath", "abspath", "split", "dirname", "realpath")

    def __enter__(self):
        self.saved = {k: SymPath.__dict__[k] for k in self.NAMES}
        SymPath.join = staticmethod(lambda a, *p: posixpath.join(a, *p))
        SymPath.basename = staticmethod(posixpath.basename)
        SymPath.normpath = staticmethod(posixpath.normpath)
        SymPath.split = staticmethod(posixpath.split)
        SymPath.dirname = staticmethod(posixpath.dirname)
        SymPath.abspath = staticmethod(lambda p: posixpath.normpath(posixpath.join(CWD, p)))
        SymPath.realpath = staticmethod(lambda p: LINKS.get(posixpath.normpath(posixpath.join(CWD, p)), posixpath.normpath(posixpath.join(CWD, p))))

    def __exit__(self, *a):
        for k, v in self.saved.items():
            setattr(SymPath, k, v)
        return False


class NameSamples(ReceivePaths):
    """CONCRETE offered names through the same code and oracle (supplementary to the symbolic jobs: Unicode normalisation, case folding and similar
    library transformations are C code the engine cannot enter): decomposed spellings whose precomposed twin exists in the sandbox, the twins
    themselves, compatibility characters, names differing in case from existing entries"""
    SAMPLES = ["e\u0301", "\u00e9", "e\u0302", "\u00ea", "F", "D", "\uff46", "f ", "f.", "\u0065\u0301.txt", "x/e\u0301", "../e\u0301", "\ufb01"]

    def __init__(self, mode, outsel, accept):
        ReceivePaths.__init__(self, mode, 0, outsel, accept, 1 if mode == "directory" else 0)
        self.name = "name_samples_%s_out-%s_%s" % (mode, outsel, "accept" if accept else "ask")
        self.bounds = dict(offer=mode, output_file=outsel, accept_file=accept, offered_names=self.SAMPLES, note="concrete samples, not solver-decided")
        self.must_reach = ("nt:done", "nt:rejected") if outsel == "none" else ("nt:done",)

    def scenario(self):
        i = eng().choose(len(self.SAMPLES), "sample")
        name = self.SAMPLES[i]
        member = "m" if self.mode == "directory" else None
        answer = "y"
        eng().inputs.update(name=name, answer=answer)
        if member is not None:
            eng().inputs["member"] = member
        try:
            with real_paths():
                verdict, D, mut, out = self.run(name, member, answer)
        except (core.Escape, core.Inconclusive, core._Abort, core.Counterexample):
            raise
        except Exception as e:
            core.check_leak(e)
            check(False, "receive raised %s on an offered name" % type(e).__name__)
            return
        self._offered = name
        self.oracle_sym(verdict, D, mut, out)
        eng().note("nt:%s" % verdict)


class PathModel(Job):
    """the symbolic posixpath model agrees with the real posixpath (differential test on random strings + symbolic spot checks)"""
    name = "posixpath_model_differential"
    functions = ["(environment) harness.c05.SymPath vs posixpath.join/basename/normpath"]
    must_reach = ("nt:model-ok",)
    bounds = dict(random_strings=4000, alphabet="'/', '.', 'a', 'b', NUL, U+00E9")

    def scenario(self):
        rnd = random.Random(eng().choose(1, "seed"))
        alpha = "/.ab\0é"
        bad = None
        for _ in range(4000):
            s = "".join(rnd.choice(alpha) for _ in range(rnd.randrange(0, 7)))
            t = "".join(rnd.choice(alpha) for _ in range(rnd.randrange(0, 5)))
            sp = SymPath.split(s)
            got = ("".join(SymPath.normpath(s).c), "".join(SymPath.basename(s).c), "".join(SymPath.join(s, t).c), "".join(SymPath.abspath(s).c),
                   ("".join(sp[0].c), "".join(sp[1].c)), "".join(SymPath.dirname(s).c))
            exp = (posixpath.normpath(s), posixpath.basename(s), posixpath.join(s, t), posixpath.normpath(posixpath.join(CWD, s)), posixpath.split(s), posixpath.dirname(s))
            if got != exp:
                bad = (s, t, got, exp)
                break
        eng().inputs["bad"] = repr(bad)
        check(bad is None, "posixpath model disagrees with the real posixpath")
        eng().note("nt:model-ok")

    def replay(self, inp, label):
        return "posixpath model (environment) disagrees with the real module: %s" % inp.get("bad")


def jobs(tier):
    thorough = tier == "thorough"
    J = [PathModel()]
    maxn = 8 if thorough else 5
    for n in range(0, maxn + 1):
        for outsel in ("none", "new", "file", "dir"):
            for accept in (True, False):
                J.append(ReceivePaths("file", n, outsel, accept, 0))
    for n in ((1, 2, 3, 4) if thorough else (1, 2)):
        for nm in (range(0, 9) if thorough else range(0, 6)):
            for outsel in ("none", "dir"):
                J.append(ReceivePaths("directory", n, outsel, True, nm))
    for n in ((0, 2, 3, 4, 5) if thorough else (0, 2, 3)):
        J.append(ReceivePaths("directory", n, "none", False, 1))
    for mode in ("file", "directory"):
        for outsel in ("none", "dir"):
            J.append(NameSamples(mode, outsel, True))
    # a directory transfer that is cut short touches nothing (in particular not a bystander <dirname>.tmp): job shared with C04
    from harness.c04 import ReceiveDirectoryDrop
    J.append(ReceiveDirectoryDrop())
    return J


ASSUMPTIONS = [
    "file system replaced by a fixed sandbox tree (cwd /w: file f, file f.tmp, directory d with file f and directory s); exists/isdir/isfile answer from that tree; "
    "open/remove/rename/chmod/extract are recorded, not performed; symlinks, races and Windows path semantics are outside the claim",
    "os.path.join/basename/normpath/abspath re-implemented over symbolic strings (posix semantics) and differential-tested against the real posixpath on 4000 random strings per run",
    "ZipFile.extract(member, path) writes only beneath `path` after dropping '', '.', '..' components and leading separators (CPython's documented behaviour)",
    "the sibling <destination>.tmp used while a file is being received counts as part of the destination mechanism (it is truncated without asking if it exists)",
    "offered names up to 5 (quick) / 8 (thorough) characters and zip member names up to 5 / 8 characters over the whole Unicode range",
]

if __name__ == "__main__":
    sys.exit(common.main("C05", "harness.c05", level="other", extra_assumptions=ASSUMPTIONS,
                         trusted_base=["harness/c05.py SymPath posix path model (differentially tested each run)", "sandbox file-system predicates"],
                         explanation="bounded symbolic execution (symrun + z3) of the real receiver path logic on fully symbolic offered names and zip member names: every recorded "
                                     "mutation lies at/under the announced destination (or its .tmp sibling), the destination is a proper child of the cwd / --output-file "
                                     "directory or the --output-file target, no directory is removed, no file is removed without --output-file, an existing destination is "
                                     "refused without --output-file, zip members never land outside the destination directory"))
