"""C19 interactive entry: the real _rlcompleter.CodeInputter on top of the real Input machine, driven by symbolic typed text.

One TAB on a symbolic text t1, then Return on a symbolic text t2 (the user may have edited the line in between, in any way).  Everything the
readline layer offers extends what was typed; an entry that is accepted sets exactly the typed code, on the nameplate that was claimed; an edit
of an already-claimed nameplate is refused instead of silently ending up on another mailbox."""
from harness.common import Job, check
from symrun import core, loader
from symrun.core import eng
from symrun import values as V
from symrun import regex as RX
from symrun.values import SymStr, fresh_str, sym_and, sym_or, sym_not, SymBool
import z3

from wormhole import _wordlist as WL, _nameplate as NP, _input as INP, _rlcompleter as RL, errors
from wormhole.timing import DebugTiming
from harness.c19 import SymSet


class RecC:
    def __init__(self):
        self.nameplates, self.codes = [], []

    def got_nameplate(self, n):
        self.nameplates.append(n)

    def finished_input(self, code):
        self.codes.append(code)


class RecL:
    def refresh(self):
        pass


def conc(x):
    return x.concrete() if isinstance(x, SymStr) and x.is_concrete() else x


class Inputter(Job):
    functions = ["_rlcompleter.CodeInputter._commit_and_build_completions/finish", "_input.Input / Helper (choose_nameplate, choose_words, get_word_completions, "
                 "get_nameplate_completions, when_wordlist_is_available)", "_nameplate.validate_nameplate", "_wordlist.PGPWordList.get_completions"]
    shadows = ["_nameplate.re (symrun/regex.py)", "_wordlist.set (list-backed)", "CodeInputter.bcft (direct call; the server's `claimed` reply = wordlist arrives "
               "when the entry code waits for it)", "_rlcompleter.isinstance"]

    def __init__(self, n1, n2, tab):
        self.n1, self.n2, self.tab = n1, n2, tab
        self.name = "inputter_tab%s_ret%d" % (n1 if tab else "-none", n2)
        self.bounds = dict(tab_text_len=n1 if tab else None, final_text_len=n2, alphabet="digits 1 2, hyphen, letters a s (so that nameplates, prefixes of "
                           "nameplates and word prefixes with and without completions all occur)", server_nameplates=["1", "12"])
        self.must_reach = ("nt:refused",) + (("nt:accepted",) if n2 >= 2 else ())

    def drive(self, t1, t2):
        i = INP.Input(DebugTiming())
        C, L = RecC(), RecL()
        i._C, i._L = C, L
        h = i.start()
        i.got_nameplates({"1", "12"})
        ci = RL.CodeInputter(h, None)

        def bcft(f, *a, **kw):
            if getattr(f, "__name__", "") == "when_wordlist_is_available":
                i.got_wordlist(WL.PGPWordList())       # the server's `claimed` reply
                return None
            return f(*a, **kw)
        ci.bcft = bcft
        out = dict(comps=None, exc1=None, exc2=None, C=C)
        if self.tab:
            try:
                out["comps"] = list(ci._commit_and_build_completions(t1))
            except (errors.KeyFormatError, errors.AlreadyInputNameplateError) as e:
                out["exc1"] = type(e).__name__
        try:
            ci.finish(t2)
        except (errors.KeyFormatError, errors.AlreadyInputNameplateError) as e:
            out["exc2"] = type(e).__name__
        return out

    def problems(self, t1, t2, o):
        C = o["C"]
        ps = []
        if o["comps"]:
            for c in o["comps"]:
                r = (c if isinstance(c, SymStr) else SymStr(list(c))).startswith(t1) if isinstance(c, (str, SymStr)) else False
                if not (r if isinstance(r, bool) else bool(r)):
                    ps.append("a completion offered for %r does not extend it" % (conc(t1),))
                    break
        if o["exc2"] is None:
            if len(C.codes) != 1:
                ps.append("entry accepted but %d codes were set" % len(C.codes))
            else:
                got = C.codes[0]
                same = ((got if isinstance(got, SymStr) else SymStr(list(got))) == t2) if isinstance(got, (str, SymStr)) else False
                if not (same if isinstance(same, bool) else bool(same)):
                    ps.append("entry accepted but the code set is not the text that was typed")
            if len(C.nameplates) != 1:
                ps.append("entry accepted with %d nameplates claimed" % len(C.nameplates))
        else:
            if C.codes:
                ps.append("entry refused although a code was set")
        return ps

    def scenario(self):
        t1 = fresh_str("tab_text", self.n1 if self.tab else 0)
        t2 = fresh_str("final_text", self.n2)
        for s in (t1, t2):
            for c in s.c:
                eng().assume(z3.Or([c == ord(x) for x in "12-as"]))
        eng().inputs.update(tab_text=t1, final_text=t2)
        with loader.shadow((NP, "re", RX.SymReModule()), (WL, "set", SymSet), (RL, "isinstance", V.sym_isinstance)):
            o = self.drive(t1, t2)
            ps = self.problems(t1, t2, o)
        for p in ps:
            check(False, p)
        eng().note("nt:accepted" if o["exc2"] is None else "nt:refused")
        return (o["exc1"], o["exc2"], len(o["C"].codes))

    def validate(self, inp, observed):
        o = self.drive(inp["tab_text"], inp["final_text"])
        obs = (o["exc1"], o["exc2"], len(o["C"].codes))
        if tuple(observed) != obs:
            return "symbolic %r vs concrete %r for %r / %r" % (tuple(observed), obs, inp["tab_text"], inp["final_text"])

    def key(self, inp, label):
        return label.split(":")[0][:80]

    def replay(self, inp, label):
        t1, t2 = inp["tab_text"], inp["final_text"]
        o = self.drive(t1, t2)
        ps = self.problems(t1, t2, o)
        if ps:
            return "TAB on %r then Return on %r: %s (code set: %r, nameplates claimed: %r)" % (t1, t2, ps[0], o["C"].codes, o["C"].nameplates)
        return None


class _RL:
    """stand-in for the readline module as far as _wrapped_completer uses it"""
    @staticmethod
    def get_completion_type():
        return 9


class _TB:
    @staticmethod
    def print_exc(*a, **kw):
        pass


class TabSession(Inputter):
    """the completer exactly as readline drives it - completer(text, 0), completer(text, 1), ... until None; an exception makes readline discard
    the attempt - over three TAB presses: on a symbolic line a, on a symbolic line b, and on b again (the double TAB that lists alternatives).
    Every completion offered at a TAB extends the line as it was at that TAB."""
    functions = ["_rlcompleter.CodeInputter.completer/_wrapped_completer/_commit_and_build_completions"] + Inputter.functions[1:]

    def __init__(self, na, nb):
        self.na, self.nb = na, nb
        self.name = "tab_session_%d_%d" % (na, nb)
        self.bounds = dict(first_line_len=na, second_line_len=nb, tabs="line a, line b, line b again", alphabet="1 2 - a s", server_nameplates=["1", "12"])
        self.must_reach = ("nt:offered",) + (("nt:completer-raised",) if nb >= 2 else ())

    def press(self, ci, text):
        out = []
        for state in range(300):
            try:
                m = ci.completer(text, state)
            except (errors.KeyFormatError, errors.AlreadyInputNameplateError) as e:
                return None, type(e).__name__
            if m is None:
                break
            out.append(m)
        return out, None

    def session(self, ta, tb):
        i = INP.Input(DebugTiming())
        C, L = RecC(), RecL()
        i._C, i._L = C, L
        h = i.start()
        i.got_nameplates({"1", "12"})
        ci = RL.CodeInputter(h, None)

        def bcft(f, *a, **kw):
            if getattr(f, "__name__", "") == "when_wordlist_is_available":
                i.got_wordlist(WL.PGPWordList())
                return None
            return f(*a, **kw)
        ci.bcft = bcft
        res = []
        for text in (ta, tb, tb):
            res.append((text,) + self.press(ci, text))
        return res

    def judge(self, res):
        for k, (text, offered, exc) in enumerate(res):
            for c in offered or []:
                r = (c if isinstance(c, SymStr) else SymStr(list(c))).startswith(text) if isinstance(c, (str, SymStr)) else False
                if not (r if isinstance(r, bool) else bool(r)):
                    return "TAB #%d on %r offered %r, which does not extend what was typed" % (k + 1, conc(text), conc(c))
        return None

    def scenario(self):
        ta = fresh_str("line_a", self.na)
        tb = fresh_str("line_b", self.nb)
        for s in (ta, tb):
            for c in s.c:
                eng().assume(z3.Or([c == ord(x) for x in "12-as"]))
        eng().inputs.update(line_a=ta, line_b=tb)
        with loader.shadow((NP, "re", RX.SymReModule()), (WL, "set", SymSet), (RL, "isinstance", V.sym_isinstance), (RL, "readline", _RL), (RL, "traceback", _TB),
                           (RL, "print", lambda *a, **kw: None)):
            res = self.session(ta, tb)
            p = self.judge(res)
        if p:
            check(False, p)
        else:
            st = eng().stats
            st.obligations += 1
            st.discharged += 1
            st.trivial += 1
        if any(o for (_, o, _) in res):
            eng().note("nt:offered")
        if any(e for (_, _, e) in res):
            eng().note("nt:completer-raised")
        return tuple((len(o) if o is not None else -1, e) for (_, o, e) in res)

    def validate(self, inp, observed):
        with loader.shadow((RL, "readline", _RL), (RL, "traceback", _TB), (RL, "print", lambda *a, **kw: None)):
            res = self.session(inp["line_a"], inp["line_b"])
        obs = tuple((len(o) if o is not None else -1, e) for (_, o, e) in res)
        if tuple(tuple(x) for x in observed) != obs:
            return "symbolic %r vs concrete %r for %r / %r" % (observed, obs, inp["line_a"], inp["line_b"])

    def replay(self, inp, label):
        import contextlib
        import io
        RL.readline = _RL
        with contextlib.redirect_stdout(io.StringIO()), contextlib.redirect_stderr(io.StringIO()):
            res = self.session(inp["line_a"], inp["line_b"])
        p = self.judge(res)
        if p:
            return "TAB on %r, TAB on %r, TAB again: %s" % (inp["line_a"], inp["line_b"], p)
        return None


def jobs(tier):
    thorough = tier == "thorough"
    J = []
    for na in ((0, 1, 2) if thorough else (0, 1)):
        for nb in ((1, 2, 3, 4) if thorough else (2, 3)):
            J.append(TabSession(na, nb))
    for n2 in (range(0, 6) if thorough else range(0, 5)):
        J.append(Inputter(0, n2, False))
    for n1 in (range(0, 5) if thorough else range(0, 4)):
        for n2 in (range(1, 6) if thorough else range(1, 5)):
            J.append(Inputter(n1, n2, True))
    return J
