"""C15 - Dilation back-pressure pauses every producer and never loses a wake-up."""
import sys
from harness import common
from harness.common import Job, check
from symrun import loader
loader.install()
from symrun import core  # noqa: E402
from symrun.core import eng  # noqa: E402

from zope.interface import implementer  # noqa: E402
from twisted.internet.interfaces import IPushProducer, IPullProducer  # noqa: E402
from wormhole._interfaces import IDilationManager  # noqa: E402
from wormhole._dilation import outbound as OUTB, inbound as INB  # noqa: E402
from wormhole._dilation.connection import Data  # noqa: E402


@implementer(IDilationManager)
class FakeManager:
    pass


class Transport:
    def __init__(self):
        self.producer = None

    def registerProducer(self, p, streaming):
        self.producer = p

    def unregisterProducer(self):
        self.producer = None


class Conn:
    """the L2 connection: send_record may make the transport call pauseProducing re-entrantly (buffer full)"""
    def __init__(self, sim):
        self.sim = sim
        self.transport = Transport()
        self.sent = []
        self.read_paused = False
        self.calls = []

    def send_record(self, r):
        self.sent.append(r)
        if self.sim.decide("buffer_full_on_send"):
            self.sim.log.append(("transport-pause-reentrant",))
            self.sim.transport_paused = True
            self.sim.o.pauseProducing()
            if self.sim.allow_reentrant_resume and self.sim.reentrant_resumes < 1 and self.sim.decide("transport_resumes_inside_turn"):
                # a synchronous (in-memory / loopback) transport drains at once: the resume arrives while the producer's turn is still on the stack
                self.sim.reentrant_resumes += 1
                self.sim.log.append(("transport-resume-reentrant",))
                self.sim.transport_paused = False
                self.sim.o.resumeProducing()

    def pauseProducing(self):
        self.calls.append("pause")
        self.read_paused = True

    def resumeProducing(self):
        self.calls.append("resume")
        self.read_paused = False


@implementer(IPushProducer)
class Push:
    def __init__(self, sim, name):
        self.sim, self.name = sim, name
        self.signals = []

    def pauseProducing(self):
        self.signals.append("pause")
        self.sim.log.append((self.name, "pause"))

    def resumeProducing(self):
        self.signals.append("resume")
        self.sim.log.append((self.name, "resume"))
        self.sim.turns.append(self.name)
        if self.sim.decide("writes_on_resume"):
            self.sim.write(self.name)
        if self.sim.quits < 1 and self.name in self.sim.subs and self.sim.decide("quits_on_resume"):
            # a finished producer unregisters itself (or its subchannel closes) from inside its own turn
            self.sim.quits += 1
            sc, p, kind = self.sim.subs.pop(self.name)
            self.sim.log.append((self.name, "quit"))
            if self.sim.decide("quit_by_close"):
                self.sim.o.subchannel_closed(1, sc)
            else:
                self.sim.o.subchannel_unregisterProducer(sc)
        others = [n for n in sorted(self.sim.subs) if n != self.name]
        if self.sim.allow_other_quit and self.sim.quits < 1 and others and self.sim.decide("another_producer_quits_during_this_turn"):
            # what this producer's turn does (say, the application finishing a request) makes ANOTHER subchannel's producer unregister / its
            # subchannel close - possibly one that is still waiting for its own turn in the very drain that is going on
            self.sim.quits += 1
            victim = others[-1] if self.sim.decide("victim_is_last") else others[0]
            sc, p, kind = self.sim.subs.pop(victim)
            self.sim.log.append((victim, "quit-during-%s" % self.name))
            if self.sim.decide("quit_by_close"):
                self.sim.o.subchannel_closed(1, sc)
            else:
                self.sim.o.subchannel_unregisterProducer(sc)

    def stopProducing(self):
        self.signals.append("stop")


@implementer(IPullProducer)
class Pull:
    def __init__(self, sim, name):
        self.sim, self.name = sim, name
        self.signals = []

    def resumeProducing(self):
        self.sim.log.append((self.name, "pull"))
        self.sim.turns.append(self.name)
        if self.sim.decide("writes_on_pull"):
            self.sim.write(self.name)

    def stopProducing(self):
        self.signals.append("stop")


class Task:
    """twisted.internet.task.CooperativeTask's contract: pauses are COUNTED (the task runs again only after as many resume() as pause() calls),
    and resume() of a task that is not paused raises NotPaused"""
    def __init__(self, coop, it):
        self.coop, self.it = coop, it
        self.pauses = 0
        self.stopped = False
        self.signals = []

    @property
    def paused(self):
        return self.pauses > 0

    def pause(self):
        self.pauses += 1
        self.signals.append("pause")

    def resume(self):
        if self.pauses == 0:
            from twisted.internet.task import NotPaused
            raise NotPaused()
        self.pauses -= 1
        self.signals.append("resume")

    def stop(self):
        self.stopped = True


class Coop:
    def __init__(self):
        self.tasks = []

    def cooperate(self, it):
        t = Task(self, it)
        self.tasks.append(t)
        return t


class Sim:
    def __init__(self, decisions=None, policy=None):
        self.policy = policy
        self.log = []
        self.turns = []
        self.coop = Coop()
        self.o = OUTB.Outbound(FakeManager(), self.coop)
        self.conn = None
        self.subs = {}          # name -> (sc object, producer, kind)
        self.n = 0
        self.seq = 0
        self.script = list(decisions) if decisions is not None else None
        self.taken = []
        self.quits = 0
        self.allow_reentrant_resume = False
        self.allow_other_quit = False
        self.reentrant_resumes = 0
        self.transport_paused = True    # what the transport last told us (no connection = paused)

    def decide(self, what):
        if self.policy is not None:
            v = int(bool(self.policy(what)))
            self.taken.append(v)
            return bool(v)
        if self.script is not None:
            v = self.script.pop(0) if self.script else 0
        else:
            v = eng().choose(2, what)
        self.taken.append(v)
        return bool(v)

    def write(self, name):
        r = self.o.build_record(Data, 1, b"x")
        self.o.queue_and_send_record(r)

    def enabled(self):
        acts = []
        if len(self.subs) < 3 and self.n < 3:
            acts += [("register", "push"), ("register", "pull")]
        for name in sorted(self.subs):
            acts += [("unregister", name), ("closed", name)]
        if self.conn is not None:
            acts += [("transport_pause",), ("transport_resume",), ("lost",)]
            for t in self.coop.tasks:
                if not t.paused and not t.stopped:
                    acts.append(("pull_turn", self.coop.tasks.index(t)))
        else:
            acts.append(("connect",))
        return acts

    def do(self, a):
        k = a[0]
        o = self.o
        if k == "register":
            name = "%s%d" % (a[1], self.n)
            self.n += 1
            sc = object()
            p = Push(self, name) if a[1] == "push" else Pull(self, name)
            self.subs[name] = (sc, p, a[1])
            o.subchannel_registerProducer(sc, p, a[1] == "push")
        elif k == "unregister":
            sc, p, kind = self.subs.pop(a[1])
            o.subchannel_unregisterProducer(sc)
        elif k == "closed":
            sc, p, kind = self.subs.pop(a[1])
            o.subchannel_closed(1, sc)
        elif k == "transport_pause":
            self.transport_paused = True
            o.pauseProducing()
        elif k == "transport_resume":
            self.transport_paused = False
            o.resumeProducing()
        elif k == "lost":
            if self.decide("transport_reports_loss_first"):
                # a real Twisted transport calls producer.stopProducing() from its own connectionLost, before the protocol/Manager hear of it
                self.log.append(("transport-stopProducing",))
                o.stopProducing()
            o.stop_using_connection()
            self.conn = None
            self.transport_paused = True
        elif k == "connect":
            self.conn = Conn(self)
            self.transport_paused = False
            o.use_connection(self.conn)
        elif k == "pull_turn":
            t = self.coop.tasks[a[1]]
            next(t.it)
        else:
            raise AssertionError(a)

    def producer_state(self, name):
        """'paused' / 'running' as last told (push: last pause/resume signal; pull: cooperator task)"""
        sc, p, kind = self.subs[name]
        if kind == "push":
            sig = [s for s in p.signals if s in ("pause", "resume")]
            return ("paused" if sig[-1] == "pause" else "running") if sig else "never-told"
        wrapper = self.o._subchannel_producers[sc]
        return "paused" if wrapper._coopTask.paused else "running"


def violations(sim, step_kind):
    out = []
    o = sim.o
    try:
        o._check_invariants()
    except AssertionError:
        out.append(("Outbound invariant broken", "paused=%r unpaused=%r all=%r" % (len(o._paused_producers), len(o._unpaused_producers), len(o._all_producers))))
    registered = set(sim.subs)
    if set(sc for (sc, p, k) in sim.subs.values()) != set(o._subchannel_producers):
        out.append(("producer registry out of sync", ""))
    # the truth is what the transport last said (or the absence of a connection), not Outbound's own flag
    paused_now = sim.transport_paused or sim.conn is None
    if sim.conn is None and not o._paused:
        out.append(("not paused although there is no connection", ""))
    if bool(o._paused) != bool(paused_now):
        out.append(("Outbound's paused flag disagrees with the transport's last signal", "Outbound._paused=%r, transport paused=%r, connection=%r" % (o._paused, sim.transport_paused, sim.conn is not None)))
    for name in sorted(registered):
        st = sim.producer_state(name)
        if paused_now and st == "running":
            out.append(("a producer is running while the connection is paused or absent", "%s (paused=%r conn=%r)" % (name, o._paused, sim.conn is not None)))
        if not paused_now and st == "paused":
            out.append(("a producer was left paused after the connection drained (lost wake-up)", name))
        if paused_now and st == "never-told" and sim.subs[name][2] == "push":
            out.append(("a producer registered while paused was never told to pause", name))
    return out


def fairness_violation(sim):
    """between two pauses of everyone, nobody is resumed twice while another continuously registered producer waits"""
    # turns since the last full pause are recorded in sim.turns; a producer appearing twice while a registered paused one has not appeared
    waiting = [n for n in sim.subs if sim.producer_state(n) == "paused"]
    pushes = [t for t in sim.turns if t.startswith("push")]
    return None


class Backpressure(Job):
    functions = ["_dilation.outbound.Outbound.subchannel_registerProducer/subchannel_unregisterProducer/subchannel_closed/pauseProducing/resumeProducing/"
                 "_get_next_unpaused_producer/use_connection/stop_using_connection/queue_and_send_record/_check_invariants", "_dilation.outbound.PullToPush"]
    shadows = []

    def __init__(self, k, first=(), reentrant_resume=False, other_quit=False):
        self.k, self.first, self.reentrant_resume, self.other_quit = k, tuple(first), reentrant_resume, other_quit
        self.name = "outbound_backpressure%s_k%d_%s" % ("_rr" if reentrant_resume else ("_oq" if other_quit else ""), k, "-".join(map(str, first)) or "all")
        self.bounds = dict(steps=k, first_action_indices=list(first), producers="<= 3, push or pull", reentrancy="every producer turn may write; every send_record may make the transport pause from inside the call")
        self.must_reach = ()

    def scenario(self):
        sim = Sim()
        sim.allow_reentrant_resume = self.reentrant_resume
        sim.allow_other_quit = self.other_quit
        sched = []
        eng().inputs["sched"] = sched
        eng().inputs["decisions"] = sim.taken
        for step in range(self.k):
            acts = sim.enabled()
            if step < len(self.first):
                if self.first[step] >= len(acts):
                    raise core._Abort()
                a = acts[self.first[step]]
            else:
                a = acts[eng().choose(len(acts), "act%d" % step)]
            sched.append(list(a))
            try:
                sim.do(a)
            except (core.Escape, core.Inconclusive, core._Abort, core.Counterexample):
                raise
            except Exception as e:
                check(False, "%s raised %s" % (a[0], type(e).__name__))
                return
            v = violations(sim, a[0])
            # rotation fairness for one transport_resume: the producers resumed in this step are pairwise distinct
            if a[0] in ("transport_resume", "connect"):
                resumed = [l[0] for l in sim.log[-50:] if len(l) == 2 and l[1] == "resume"]
            for what, detail in v:
                check(False, "%s: %s" % (what, detail))
            if v:
                return
            st = eng().stats
            st.obligations += 1
            st.discharged += 1
            st.trivial += 1
        eng().note("nt:explored")

    def key(self, inp, label):
        return label.split(":")[0]

    def replay(self, inp, label):
        sim = Sim(decisions=inp["decisions"])
        sim.allow_reentrant_resume = getattr(self, "reentrant_resume", False)
        sim.allow_other_quit = getattr(self, "other_quit", False)
        for a in inp["sched"]:
            a = tuple(a)
            if a not in sim.enabled():
                return None
            try:
                sim.do(a)
            except Exception as e:
                return "schedule %r (re-entrancy flags %r): %s raised %r" % (inp["sched"], inp["decisions"], a[0], e)
            v = violations(sim, a[0])
            if v:
                return "schedule %r (re-entrancy flags %r): %s %s" % (inp["sched"], inp["decisions"], v[0][0], v[0][1])
        return None


class Rotation(Job):
    """interrupted resumes: with n push producers all paused, resume interrupted after one producer each time gives every producer a turn before any second turn"""
    functions = ["Outbound.resumeProducing/_get_next_unpaused_producer/pauseProducing"]

    def __init__(self, n):
        self.n = n
        self.name = "outbound_rotation_n%d" % n
        self.bounds = dict(producers=n, rounds=2 * n, interruption="transport pauses again from inside each producer's first write")
        self.must_reach = ("nt:rotated",)

    def run(self, decisions=None):
        # every producer writes on each turn and the transport pauses again from inside the first write of each resume
        sim = Sim(policy=lambda what: what in ("writes_on_resume", "buffer_full_on_send"))
        sim.do(("connect",))
        for i in range(self.n):
            sim.do(("register", "push"))
        sim.do(("transport_pause",))
        sim.turns.clear()
        order = []
        for r in range(2 * self.n):
            before = len(sim.turns)
            sim.do(("transport_resume",))
            order.append(sim.turns[before:])
            if not sim.o._paused:
                sim.do(("transport_pause",))
        return sim, order

    def scenario(self):
        sim, order = self.run()
        eng().inputs["decisions"] = []
        flat = [x for rnd in order for x in rnd]
        check(all(len(r) == 1 for r in order), "an interrupted resume gave a turn to more or fewer than one producer")
        # every window of n consecutive turns taken while everyone stayed registered contains each producer at most once more than any other
        for i in range(len(flat)):
            window = flat[i:i + self.n]
            if len(window) == self.n:
                check(len(set(window)) == self.n, "a producer got a second turn before another got its first")
        eng().note("nt:rotated")

    def replay(self, inp, label):
        sim, order = self.run(inp["decisions"])
        flat = [x for rnd in order for x in rnd]
        for i in range(len(flat) - self.n + 1):
            w = flat[i:i + self.n]
            if len(set(w)) != self.n:
                return "turn order %r: a producer got a second turn before another got its first" % (flat,)
        return None


# ------------------------------------------------------------------------------------------------ inbound
class InSim:
    def __init__(self):
        self.i = INB.Inbound(FakeManager(), None)
        self.conn = None
        self.want = set()
        self.scs = [object(), object(), object()]

    def enabled(self):
        acts = [("pause", k) for k in range(3)] + [("resume", k) for k in range(3)] + [("stop", k) for k in range(3)]
        acts.append(("connect",) if self.conn is None else ("lost",))
        if self.conn is not None:
            acts.append(("replace",))
        return acts

    def do(self, a):
        i = self.i
        if a[0] == "pause":
            self.want.add(a[1])
            i.subchannel_pauseProducing(self.scs[a[1]])
        elif a[0] == "resume":
            self.want.discard(a[1])
            i.subchannel_resumeProducing(self.scs[a[1]])
        elif a[0] == "stop":
            self.want.discard(a[1])
            i.subchannel_stopProducing(self.scs[a[1]])
        elif a[0] in ("connect", "replace"):
            if a[0] == "replace":
                i.stop_using_connection()
            self.conn = Conn(self)
            self.o = None
            i.use_connection(self.conn)
        elif a[0] == "lost":
            i.stop_using_connection()
            self.conn = None

    def decide(self, what):
        return False

    def violation(self):
        if self.conn is not None and self.conn.read_paused != bool(self.want):
            return ("inbound read side paused=%r although %d subchannels asked for a pause" % (self.conn.read_paused, len(self.want)), "")
        return None


class InboundPause(Job):
    functions = ["_dilation.inbound.Inbound.subchannel_pauseProducing/subchannel_resumeProducing/subchannel_stopProducing/use_connection/stop_using_connection"]

    def __init__(self, k, first=()):
        self.k, self.first = k, tuple(first)
        self.name = "inbound_pause_k%d_%s" % (k, "-".join(map(str, first)) or "all")
        self.bounds = dict(steps=k, first_action_indices=list(first), subchannels=3, actions="pause/resume/stop per subchannel (also repeated or unmatched), connection lost/established/replaced")
        self.must_reach = ()

    def scenario(self):
        sim = InSim()
        sched = []
        eng().inputs["sched"] = sched
        for step in range(self.k):
            acts = sim.enabled()
            if step < len(self.first):
                if self.first[step] >= len(acts):
                    raise core._Abort()
                a = acts[self.first[step]]
            else:
                a = acts[eng().choose(len(acts), "act%d" % step)]
            sched.append(list(a))
            sim.do(a)
            v = sim.violation()
            if v:
                check(False, v[0])
                return
            st = eng().stats
            st.obligations += 1
            st.discharged += 1
            st.trivial += 1
        eng().note("nt:explored")

    def key(self, inp, label):
        return "inbound pause state wrong"

    def replay(self, inp, label):
        sim = InSim()
        for a in inp["sched"]:
            sim.do(tuple(a))
            v = sim.violation()
            if v:
                return "schedule %r: %s" % (inp["sched"], v[0])
        return None


def jobs(tier):
    thorough = tier == "thorough"
    k = 6 if thorough else 5
    J = []
    # the first action from the initial state is one of: register push / register pull / connect (3); the second one of <= 6
    for a0 in range(3):
        for a1 in range(6):
            J.append(Backpressure(k, (a0, a1)))
    # a synchronous transport may drain (resume) while the producer's turn that filled it is still on the stack: one such resume per run
    for a0 in range(3):
        for a1 in range(6):
            J.append(Backpressure(k - 1, (a0, a1), reentrant_resume=True))
    # three producers registered (first three actions: push/pull in every combination), then anything: during one producer's turn another producer,
    # possibly one still waiting for its turn in the same drain, may unregister or have its subchannel closed
    for a0 in range(2):
        for a1 in range(2):
            for a2 in range(2):
                J.append(Backpressure(k, (a0, a1, a2), other_quit=True))
    J += [Rotation(2), Rotation(3), Rotation(4)]
    for a0 in range(11):
        J.append(InboundPause(5 if thorough else 4, (a0,)))
    return J


ASSUMPTIONS = [
    "the L2 connection and its transport are recorders; the transport may call pauseProducing from inside any send_record (symbolic flag per call) and producers may write "
    "from inside resumeProducing (symbolic flag per turn); pull producers run on a recording cooperator",
    "bounded: schedules of 5/6 steps over <= 3 producers from the initial (unconnected) state; rotation for 2 and 3 push producers over 2n interrupted resumes",
    "'eventually resumed' is checked as: at the end of every step, when the connection is not paused no registered producer is left paused",
]

if __name__ == "__main__":
    sys.exit(common.main("C15", "harness.c15", level="other", extra_assumptions=ASSUMPTIONS,
                         trusted_base=["recording connection/transport/cooperator stubs in harness/c15.py"],
                         explanation="bounded symbolic schedules (symrun + z3 case-splitting on action and re-entrancy variables) over the real Outbound/PullToPush and Inbound "
                                     "flow-control code: invariants hold, every producer is paused while the connection is paused or absent, none is left paused after a drain, "
                                     "interrupted resumes rotate fairly, inbound reading is paused iff some subchannel asked for it, also on a replacement connection"))
