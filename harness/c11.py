"""C11 - Dilation peers agree on roles, use one connection at a time, re-converge."""
import sys
from harness import common
from harness.common import Job, check
from symrun import loader
loader.install()
from symrun import core  # noqa: E402
from symrun.core import eng  # noqa: E402
from symrun.values import fresh_str, SymBool, sym_and, sym_or, sym_not  # noqa: E402
from harness.dsim import DExplore, make_jobs, make_random_jobs as make_drandom_jobs  # noqa: E402
from env.dilation import LEADER, FOLLOWER  # noqa: E402
from wormhole._dilation import manager as M  # noqa: E402
import z3  # noqa: E402

CONFIGS = {
    # selection (and every restart) happens while other attempts of the same generation are still in flight
    "attempts-in-flight": dict(app=False, lazy_tcp=True),
    "plain": dict(app=False),
    "plain-swapped": dict(app=False, sides=("cc" * 8, "11" * 8)),
    "with-app": dict(app=True),
    "leader-not-dialable": dict(app=False, no_listen=(False, True)),
    "follower-not-dialable": dict(app=False, no_listen=(True, False)),
    "ping-timeout": dict(app=False, silent_after_connect=True),
}
DOCUMENTED_LOG = set()


class Converge(DExplore):
    configs = CONFIGS

    def violations(self, sim, when):
        out = []
        w = sim.w
        for s in w.sides:
            for e in s.errors:
                out.append(("internal failure", "%s: %s %s: %s" % (s.name, e[0], e[1], e[2])))
        for l in w.logged:
            out.append(("error logged", l))
        ra, rb = getattr(w.sides[0].m, "_my_role", None), getattr(w.sides[1].m, "_my_role", None)
        if ra is not None and rb is not None and not ({ra, rb} == {LEADER, FOLLOWER}):
            out.append(("roles not complementary", "%r / %r" % (ra, rb)))
        for i in (0, 1):
            sel = w.selected(i)
            if len(sel) > 1:
                out.append(("more than one connection in use at a time", "%s uses links %r" % (w.sides[i].name, [p.link for p, _ in sel])))
            if getattr(w.sides[i].m, "_my_role", None) is FOLLOWER:
                for (pipe, p) in sel:
                    if pipe.link not in sim.leader_selected_links:
                        out.append(("follower uses a connection the leader has not confirmed", "link %d" % pipe.link))
        if when == "settled" and not any(sim.stopped_req):
            sa, sb = w.sides[0].state(), w.sides[1].state()
            if (sa, sb) != ("CONNECTED", "CONNECTED"):
                out.append(("no convergence after the network delivered everything", "states %s/%s, links %d, pending %d" % (sa, sb, len(w.net.links), len(w.net.pending))))
            else:
                la = [p.link for p, _ in w.selected(0)]
                lb = [p.link for p, _ in w.selected(1)]
                if len(la) != 1 or la != lb:
                    out.append(("the two sides do not share one link", "A uses %r, B uses %r" % (la, lb)))
        return out


class Roles(Job):
    """Manager.choose_role on two symbolic 16-hex-digit sides: both managers decide complementary roles unless equal"""
    name = "choose_role_symbolic"
    functions = ["_dilation.manager.Manager.choose_role", "Manager.allocate_subchannel_id"]
    must_reach = ("nt:complementary", "nt:equal-rejected")
    bounds = dict(side="16 symbolic hex digits each")

    def scenario(self):
        a = fresh_str("side_a", 16, 48, 103)
        b = fresh_str("side_b", 16, 48, 103)
        for s in (a, b):
            for c in s.c:
                eng().assume(z3.Or(z3.And(c >= 48, c <= 57), z3.And(c >= 97, c <= 102)))
        eng().inputs.update(side_a=a, side_b=b)

        class Fake:
            pass
        res = []
        for mine, theirs in ((a, b), (b, a)):
            f = Fake()
            f._my_side = mine
            try:
                # SymStr ordering: lexicographic on code points, as str comparison
                M.Manager.__dict__["choose_role"].method(f, {"side": theirs})
                res.append((f._my_role, f._next_subchannel_id))
            except ValueError:
                res.append("ValueError")
        eq = a == b
        if res[0] == "ValueError" or res[1] == "ValueError":
            check(res[0] == res[1], "only one side rejected equal sides")
            check(eq, "distinct sides rejected")
            eng().note("nt:equal-rejected")
        else:
            check(sym_not(eq) if not isinstance(eq, bool) else not eq, "equal sides accepted")
            check({res[0][0], res[1][0]} == {LEADER, FOLLOWER}, "roles not complementary")
            for role, first in res:
                check(first == (1 if role is LEADER else 2), "subchannel id parity does not follow the role")
            eng().note("nt:complementary")

    def replay(self, inp, label):
        class Fake:
            pass
        res = []
        for mine, theirs in ((inp["side_a"], inp["side_b"]), (inp["side_b"], inp["side_a"])):
            f = Fake()
            f._my_side = mine
            try:
                M.Manager.__dict__["choose_role"].method(f, {"side": theirs})
                res.append((f._my_role, f._next_subchannel_id))
            except ValueError:
                res.append("ValueError")
        if "ValueError" in res:
            if res[0] != res[1] or inp["side_a"] != inp["side_b"]:
                return "sides %r/%r: %r" % (inp["side_a"], inp["side_b"], res)
            return None
        if inp["side_a"] == inp["side_b"] or {res[0][0], res[1][0]} != {LEADER, FOLLOWER}:
            return "sides %r/%r: roles %r" % (inp["side_a"], inp["side_b"], res)
        for role, first in res:
            if first != (1 if role is LEADER else 2):
                return "subchannel id parity: %r" % (res,)
        return None


# ---- full stack: PLEASE/HINTS/RECONNECT/RECONNECTING travel as encrypted dilate-N phases through the real mailbox path (Boss re-orders them by
# sequence number); the mailbox connection may drop and return and a reordering server may deliver them out of order
from harness import fullstack as FS  # noqa: E402

FS_CONFIGS = {
    "fs-plain-reorder": dict(app=False, reorder=True, stoppable=False),
    "fs-attempts-in-flight-dilate-late": dict(app=False, lazy_tcp=True, dilate_when="late", stoppable=False),
}


class FConverge(FS.FExplore):
    configs = FS_CONFIGS

    def violations(self, sim, when):
        return Converge.violations(self, sim, when) + FS.app_message_violations(sim, when)


def jobs(tier):
    from harness.phase_dispatch import PhaseDispatch
    return [Roles(), PhaseDispatch()] + make_jobs(Converge, tier, 2, 3) + make_drandom_jobs(Converge, tier) + \
        FS.make_jobs(FConverge, tier, 2, 3) + FS.make_random_jobs(FConverge, tier, per_cfg=32)


ASSUMPTIONS = [
    "in-memory network env/dilation.py: listen/connect recorded, a connect completes/is refused and bytes are delivered (whole chunks or half a chunk) as the schedule decides; "
    "ideal Noise (noiseprotocol not installed); host address 127.0.0.1",
    "dilate-N control messages are carried FIFO per sender by a stand-in for the mailbox (Boss ordering of dilate-N is not part of this run)",
    "bounded: every prefix of one canonical run (connect, converge, lose the selected link, re-converge) + k arbitrary steps (deliveries, partial deliveries, losses of any "
    "link, refusals, timers, control messages) + fair completion; at most 3 link losses per run; this is a bounded, checkpoint-relative claim",
]

if __name__ == "__main__":
    sys.exit(common.main("C11", "harness.c11", level="other", extra_assumptions=ASSUMPTIONS,
                         trusted_base=["env/dilation.py network model", "env/noise.py ideal Noise"],
                         explanation="choose_role on symbolic sides (z3), and bounded symbolic schedules over two real Manager/Connector/connection stacks: complementary "
                                     "roles, at most one selected connection per side at every step, follower only on a leader-confirmed link, CONNECTED/CONNECTED on one "
                                     "shared link after fair completion, no internal failure"))
