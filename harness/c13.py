"""C13 - Subchannels open once, close once, and honour the subprotocol contract."""
import sys
from harness import common
from harness.common import Job, check
from symrun import loader
loader.install()
from symrun import core  # noqa: E402
from symrun.core import eng  # noqa: E402
from symrun.values import fresh_int, SymInt, sym_and, sym_not, SymBool  # noqa: E402
from harness.dsim import DExplore, make_jobs, make_random_jobs as make_drandom_jobs, NAMES  # noqa: E402
from harness.c10 import delivery_violations  # noqa: E402
from wormhole._dilation import manager as MGR  # noqa: E402
from env.dilation import LEADER, FOLLOWER  # noqa: E402

CONFIGS = {
    "normal": dict(app=True, both_write=True),
    "half-closeable": dict(app=True, both_write=True, half=True),
    "expected-p0-only": dict(app=True, expected=(None, ["p0"])),
    "expected-none-allowed": dict(app=True, expected=(None, [])),
}


class Subchannels(DExplore):
    configs = CONFIGS

    def violations(self, sim, when):
        out = []
        w = sim.w
        A, B = w.sides
        for s in w.sides:
            for e in s.errors:
                out.append(("internal failure", "%s: %s %s: %s" % (s.name, e[0], e[1], e[2])))
        refusing = w._args[1][1] is not None
        for l in w.logged:
            if refusing and l.split(":")[0] in ("CloseForMissingSubchannelError", "DataForMissingSubchannelError"):
                # the refusing side forgets the subchannel at once; the opener's answering CLOSE is then logged. Log noise, not an application-visible effect.
                continue
            out.append(("error logged", l))
        exp0 = w._args[1][1]
        out += [v for v in delivery_violations(sim, when)
                if not (exp0 is not None and any(("%s" % n) in v[1].split(":")[0].split() or v[1].startswith(n) for n in NAMES if n not in exp0))]
        # subchannel ids never collide between the two sides
        ida = [p.transport._scid for p in sim.protos.values() if getattr(p, "transport", None) is not None]
        idb = [p.transport._scid for p in sim.bproto if getattr(p, "transport", None) is not None]
        if set(ida) & set(idb) or len(set(ida)) != len(ida):
            out.append(("the two sides allocated the same subchannel id", "A %r, B %r" % (ida, idb)))
        # write after a local close is refused
        for n, res in sim.wac.items():
            if res == "accepted":
                out.append(("write after close was accepted", n))
        # each side's connectionLost exactly once after both directions are closed
        exp = w._args[1][1]
        if when == "settled" and not any(sim.stopped_req) and A.state() == "CONNECTED" and B.state() == "CONNECTED":
            for n in NAMES:
                opened = bool(sim.connect_d.get(n)) and sim.connect_d[n][0][0] == "ok"
                if not opened:
                    continue
                alog = [e[1] for e in A.applog if e[0] == "A-conn-%s#0" % n]
                blog = [e[1] for e in B.applog if e[0] == "B-listen-%s#0" % n]
                if exp is not None and n not in exp and not blog:
                    # not served by a listener registered beforehand: the OPEN must have been refused by closing it
                    if "connectionLost" not in alog and not (sim.half and "readConnectionLost" in alog):
                        out.append(("OPEN for a subprotocol outside the expected set was held open instead of being closed", "%s (expected=%r): opener saw %r" % (n, exp, alog)))
                    continue
                both_closed = (n in sim.closed) and (n in sim.bclosed or not sim.half)
                if both_closed and n in sim.listening:
                    for who, lg in (("opener", alog), ("listener", blog)):
                        if lg.count("connectionLost") != 1:
                            out.append(("connectionLost not delivered exactly once after both directions closed (%s)" % ("half-closeable" if sim.half else "normal"),
                                        "%s %s: %r" % (who, n, lg)))
        return out


class IdParity(Job):
    """allocate_subchannel_id from a symbolic counter: parity is preserved forever, so leader ids (odd) never equal follower ids (even)"""
    name = "step_allocate_subchannel_id"
    functions = ["_dilation.manager.Manager.allocate_subchannel_id", "Manager.choose_role"]
    must_reach = ("nt:step",)
    bounds = dict(counter="arbitrary integer >= 1 with the parity choose_role gave it")

    def scenario(self):
        role = eng().choose(2, "role")
        k = fresh_int("allocations_so_far", 0)
        eng().inputs.update(role=role, allocations_so_far=k)
        m = MGR.Manager.__new__(MGR.Manager)
        m._my_side = "b" if role == 0 else "a"
        MGR.Manager.__dict__["choose_role"].method(m, {"side": "a" if role == 0 else "b"})
        first = m._next_subchannel_id
        check(first == (1 if m._my_role is LEADER else 2), "first id does not follow the role")
        m._next_subchannel_id = first + 2 * k      # any reachable counter value (invariant: same parity as first)
        got = m.allocate_subchannel_id()
        check((got % 2) == (first % 2), "allocated id has the other side's parity")
        check((m._next_subchannel_id % 2) == (first % 2), "counter parity not preserved")
        check(m._next_subchannel_id > got, "counter did not advance: the same id would be handed out twice")
        eng().note("nt:step")

    def replay(self, inp, label):
        m = MGR.Manager.__new__(MGR.Manager)
        role = inp["role"]
        m._my_side = "b" if role == 0 else "a"
        MGR.Manager.__dict__["choose_role"].method(m, {"side": "a" if role == 0 else "b"})
        first = m._next_subchannel_id
        m._next_subchannel_id = first + 2 * inp["allocations_so_far"]
        got = m.allocate_subchannel_id()
        if got % 2 != first % 2 or m._next_subchannel_id % 2 != first % 2 or m._next_subchannel_id <= got or first != (1 if m._my_role is LEADER else 2):
            return "role %r: first id %d, after %d allocations got %d, next %d" % (m._my_role, first, inp["allocations_so_far"], got, m._next_subchannel_id)
        return None


# ---- full stack: expected_subprotocols goes through the real w.dilate() -> Boss.dilate -> Dilator.dilate -> Manager path
from harness import fullstack as FS  # noqa: E402

FS_CONFIGS = {
    "fs-expected-p0-only": dict(app=True, expected=(None, ["p0"]), stoppable=False, max_mdrops=0),
    "fs-normal-two-way": dict(app=True, both_write=True, stoppable=False, max_mdrops=0),
}


class FSubchannels(FS.FExplore):
    configs = FS_CONFIGS

    def violations(self, sim, when):
        return Subchannels.violations(self, sim, when)


def jobs(tier):
    return [IdParity()] + make_jobs(Subchannels, tier, 2, 3) + make_drandom_jobs(Subchannels, tier) + FS.make_jobs(FSubchannels, tier, 2, 3)


ASSUMPTIONS = [
    "in-memory network env/dilation.py, ideal Noise; application model as in C10 plus: listener may close its direction, side B may open its own subchannel q0, "
    "a write issued after the local close, half-closeable protocols (loseWriteConnection) vs normal ones, expected_subprotocols unset / ['p0'] / []",
    "expected_subprotocols is given to the Manager constructor exactly as Boss.dilate -> Dilator.dilate passes it",
    "'connectionLost exactly once' is required for half-closeable protocols too once both directions are closed (Twisted's TCP transports do the same)",
    "bounded: every prefix of one canonical run + k arbitrary steps + fair completion",
]

if __name__ == "__main__":
    sys.exit(common.main("C13", "harness.c13", level="other", extra_assumptions=ASSUMPTIONS,
                         trusted_base=["env/dilation.py network model", "env/noise.py ideal Noise"],
                         explanation="bounded symbolic schedules over two real dilation stacks: open surfaces once under the requested name (early or late listen), ids never "
                                     "collide (plus an inductive parity step on a symbolic counter), data before close precedes connectionLost, connectionLost once per side, "
                                     "write after close refused, OPEN outside the declared expected set is closed"))
