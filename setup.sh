#!/bin/bash
# MANIFEST.setup_cmd: offline overlay venv on /venv's python with z3-solver (+ crosshair-tool)
set -e
HERE="$(cd "$(dirname "$0")" && pwd)"
cd "$HERE"
if [ -x .venv/bin/python ] && .venv/bin/python -c "import z3, crosshair" 2>/dev/null; then exit 0; fi
rm -rf .venv
/venv/bin/python -m venv .venv
echo "import site; site.addsitedir('/venv/lib/python3.12/site-packages')" > .venv/lib/python3.12/site-packages/_ov.pth
PIP_NO_INDEX=1 .venv/bin/pip install -q --no-index --find-links /opt/veriftools/wheels z3-solver crosshair-tool
.venv/bin/python -c "import z3, wormhole; print('ok', z3.get_version_string())"
