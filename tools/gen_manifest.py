#!/usr/bin/env python3
"""Regenerates MANIFEST.json from the table below (single source of truth for the interface)."""
import json
import os

HERE = os.path.dirname(os.path.dirname(os.path.abspath(__file__)))

TECH = "bounded symbolic execution of the real code with z3 (symrun): inputs/schedules are solver variables, every path-end obligation is an SMT query, counterexamples replayed on un-instrumented code"

CHECKS = {
    "C12": dict(
        text="All feasible paths of the real encode_record/parse_record/to_be4/from_be4, _Framer, _Record and DilatedConnectionProtocol.dataReceived "
             "are executed on symbolic field values, symbolic byte streams and a symbolic payload length; z3 discharges round-trip, decoder-totality, "
             "reference-parser equivalence, two-chunk equivalence (=> any chunking), multi-packet arithmetic for every length 0..4*65519+9, and "
             "rejection of handshakes/frames that are not the honest peer's under the same key. Bounded: payload/stream lengths as listed in the evidence.",
        note="Noise replaced by the ideal stub env/noise.py (noiseprotocol is not installed); struct '>L' as linear arithmetic; UTF-8 of symbolic "
             "non-ASCII bytes modelled as undecodable; symrun proxies + AST call-site loader trusted (validated per path against concrete runs and by "
             "running the repo test suite through the loader); z3 trusted.",
        ref="6/C12"),
}

CHECKS["C06"] = dict(
    text="Two real transit Connections are negotiated through the real handshake code; the sender's real send_record output is delivered to the real "
         "receiver. z3 discharges (a) two-chunk equivalence on delivered records and the full parser state for honest records followed by arbitrary "
         "symbolic bytes at every cut (=> any chunking), and (b) for nine manipulation kinds (flip of any byte to any value, delete, duplicate, swap, "
         "replay, truncate, inject, reflect, extend) at every position: only the intact prefix is surfaced, the connection is dropped (or stalls with "
         "nothing delivered when a length prefix was enlarged/stream truncated), nothing is delivered afterwards, pending reads/consumer Deferreds fail; "
         "both directions, receive_record and consumer modes; send/receive keys pair up across the ends and differ per direction.",
    note="NaCl SecretBox replaced by the ideal AEAD env/box.py in symbolic runs (counterexamples are replayed with the real SecretBox first); "
         "int(hexlify(b),16) as linear arithmetic; byte-level jobs use small records (0..3 bytes); job big_records makes the two record lengths solver variables (any size < 2**32-40, payloads opaque ropes); symrun + loader + z3 trusted.",
    ref="6/C06")

CHECKS["C07"] = dict(
    text="The real transit handshake code (startNegotiation/_dataReceived/_check_and_remove/connection_ready) is executed on inbound bytes = honest "
         "prefix of every length + up to 3-4 arbitrary symbolic bytes, at every cut: z3 shows a connection reaches 'records' / is told go iff the "
         "inbound bytes equal the expected handshake (receiver: + go), hangs up on the first deviation and fails its Deferred. The real "
         "connect()/_connect/there_can_be_only_one/InboundConnectionFactory/_not_forever run with fake endpoints on a Clock over all bounded schedules "
         "(establish/refuse/inbound/partial delivery/loss/timer) with symbolic per-contender handshake bytes: at most one go, only matching contenders "
         "selected, losers closed, connect() never pending after 2*TIMEOUT.",
    note="fake endpoints/listener/Clock; real HKDF with a concrete key (a party with another key = bytes deviating somewhere, solver-chosen); "
         "<=3 outbound + relay + inbound contenders, schedules of 4 (quick) / 7 (thorough) steps + fair completion; honest sender assumed for the "
         "receiver-side contender runs (at most one go).",
    ref="6/C07")

CHECKS["C19"] = dict(
    text="Real choose_words/Allocator.build_and_notify run with symbolic random bytes (each word is the lower-cased table entry of its own draw, n one-byte "
         "draws, tables are 256 distinct hyphen-free words: z3 Distinct); the regex literal of validate_nameplate is read from the current source and "
         "compared with digits+ by z3 string-theory language inclusion (unbounded strings), and the real validate_code/Code.set_code/Input.choose_nameplate "
         "run on fully symbolic strings (<=4/5 chars, all Unicode): accepted iff no U+0020 and a numeric nameplate, nothing sent on rejection; real "
         "get_completions on fully symbolic prefixes (<=4/6 chars): every completion extends the prefix and completes the right-parity list word with the "
         "right hyphenation; Input has a row for every helper call in every state; only one of allocate/set/input.",
    note="os.urandom symbolic (uniformity of the OS source is the environment's contract); numeric = the class the running re module calls \\d; "
         "completions for the default num_words=2; string lengths bounded as stated; symrun/regex.py translation validated per path against the real re.",
    ref="6/C19")
CHECKS["C14"] = dict(
    text="The real composed client(s) created by wormhole.create (Boss and all machines, RendezvousConnector entry points, both API wrappers) run against the "
         "server model under bounded symbolic schedules: every prefix of a canonical honest run for 12 configurations (set/allocate/input codes, wrong code, "
         "deferred API, duplicated/reordered delivery, third participant, server error, welcome error, solo) followed by 2 (quick) / 3 (thorough) arbitrary "
         "API/environment steps and a fair completion. Obligation on every path: no exception escapes an API call or ws_* entry point (NoTransition, "
         "AssertionError, ...), nothing but the documented notices is logged via log.err, close() verdicts are documented ones. Known findings are listed "
         "in known_findings.json and re-derived on every run.",
    note="server/connectivity model env/client.py (from docs/server-protocol.rst), ideal PAKE/AEAD, frames may still be delivered between stop() and ws_close; "
         "legal API use as defined in the evidence; bounded depth after each checkpoint, checkpoints are prefixes of canonical runs only.",
    ref="6/C14")

_COMPOSED_NOTE = ("server/connectivity model env/client.py (from docs/server-protocol.rst), ideal PAKE/AEAD, deterministic randomness; checkpoints are the "
                  "prefixes of one canonical honest run per configuration; k free steps (quick/thorough as in the evidence) then a fair completion; "
                  "oracle evaluated concretely on each solver-selected schedule (schedule choices are z3 variables case-split by symrun).")
CHECKS["C08"] = dict(
    text="Real composed client(s) under bounded symbolic schedules (9 configurations: set/allocate/input, wrong code, deferred API, server error, welcome error, "
         "third participant, solo): close() or an error at any point of every canonical prefix + 2/3 arbitrary steps, then fair completion: exactly one closed "
         "notification, nothing delivered after it, verdict admissible for the history (happy iff Boss had verified a peer message at close time, LonelyError, "
         "WrongPasswordError, ServerError, WelcomeError), claim released, mailbox closed with the matching mood, connection down, close() Deferred fired.",
    note=_COMPOSED_NOTE + " One known finding (claim of an in-flight allocate).", ref="6/C08")
CHECKS["C18"] = dict(
    text="Real composed client(s), delegated and deferred API (get_* up front or as schedule actions), 8 configurations, bounded symbolic schedules: each of "
         "code/key/verifier/versions/closed at most once, causal order, verifier before any peer data, versions before messages on an order-preserving server, "
         "nothing after closed; after closed every outstanding and future get_*() Deferred has failed; get_message() results are the peer's messages in order.",
    note=_COMPOSED_NOTE, ref="6/C18")
CHECKS["C03"] = dict(
    text="Two real composed clients, up to 3 messages per direction, server may duplicate/reorder stored messages, replay the mailbox on every open, lose in-flight "
         "traffic on drops: at every step of every bounded schedule each side's received sequence is a prefix of the peer's send_message arguments; after fair "
         "completion everything sent was delivered.",
    note=_COMPOSED_NOTE + " Message contents are fixed distinct strings (tampering is C02).", ref="6/C03")
CHECKS["C09"] = dict(
    text="Two real composed clients against the lossy server model (commands processed only when scheduled; a drop discards unprocessed commands and undelivered "
         "replies), up to 4 connections per side, bounded symbolic fault schedules of drop/open/process/deliver/API steps: bind first on every connection, no "
         "application event repeated, list re-issued, and after fair completion both sides have key, verifier, versions and every send_message was delivered once.",
    note=_COMPOSED_NOTE + " Bounded liveness only (adversarial prefix + fair suffix).", ref="6/C09")

_DIL_NOTE = ("in-memory network env/dilation.py (listen/connect recorded, byte pipes pumped by the schedule, whole or half chunks, loss of any link), ideal Noise "
             "env/noise.py (noiseprotocol not installed), dilate-N messages carried FIFO per sender by a mailbox stand-in; checkpoints are the prefixes of one canonical "
             "run per configuration (connect, converge, application traffic, loss of the selected link, re-convergence) + k free steps + fair completion.")
CHECKS["C20"] = dict(
    text="Real _hints.parse_hint/parse_tcp_v1_hint/encode_hint/endpoint_from_hint_obj and transit add_connection_hints + connect() contender construction run on hint "
         "JSON whose every field (type, hostname, port, priority, hints, sub-hint fields) is a solver-chosen value of any JSON type or absent, plus non-object entries: "
         "no exception escapes; z3 shows an endpoint is dialled only for hints with str hostname, int port and a supported type; pairs/triples of well-formed hints "
         "with priorities of any type cover cross-entry sorting/hashing; hints of the shape this side produces are all dialled; parse(encode(h)) == h. The dilation "
         "connection-hints message goes through the same parse_hint and Connector._use_hints (checked in c20_dilation).",
    note="per-field value domains are representatives of each JSON type (listed in the evidence); no Tor; bool counts as int; endpoint classes replaced by recorders.",
    ref="6/C20")
CHECKS["C11"] = dict(
    text="Manager.choose_role on two symbolic 16-hex-digit sides (z3: complementary roles and id parity unless equal, then both reject); two real Manager/Connector/"
         "DilatedConnectionProtocol stacks under bounded symbolic schedules (control messages, connect completion/refusal, whole/half chunk delivery, loss of any link with the "
         "proviso that one attempt of a generation survives, timers): complementary roles, at most one selected connection per side at every step, a follower only uses a "
         "link the leader selected, CONNECTED/CONNECTED on one shared link after fair completion, no internal failure.",
    note=_DIL_NOTE + " Bounded, checkpoint-relative claim (the weakest in the set).", ref="6/C11")
CHECKS["C17"] = dict(
    text="Two real dilation stacks, stop() on either side at any step of every canonical prefix + 2/3 arbitrary steps (all Manager states incl. FLUSHING/LONELY/ABANDONING, "
         "pending eventual-turn callbacks): stop completes (when_stopped fires, which releases Terminator.stoppedD), no listener and no connection of the stopped side is "
         "left, nothing logged; with a peer without dilation support every pending and future subchannel connect() fails with OldPeerCannotDilateError.",
    note=_DIL_NOTE + " The Manager-level runs use Manager.stop(); the full-stack family runs the real Boss/Terminator/Dilator (mailbox side of close() in depth is C08).", ref="6/C17")
CHECKS["C10"] = dict(
    text="Inductive steps from symbolic pre-states (z3): Outbound.handle_ack on a queue with symbolic consecutive seqnums retires exactly the records <= ack; "
         "Manager.got_record with symbolic seqnum/watermark always acks, dispatches iff new, watermark = max. Bounded symbolic schedules over two real dilation stacks "
         "with link loss at record and mid-frame positions: per subchannel the peer's connectionMade/dataReceived*/connectionLost equal the opener's "
         "connect/write*/loseConnection exactly once, in order, boundaries kept, both directions, also for writes issued while disconnected.",
    note=_DIL_NOTE, ref="6/C10")
CHECKS["C13"] = dict(
    text="Bounded symbolic schedules over two real dilation stacks with early/late listen, both sides opening, listener closing, write-after-close, half-closeable vs "
         "normal protocols, expected_subprotocols unset/['p0']/[]: each open surfaces once under the requested name, ids never collide (plus an inductive parity step on "
         "a symbolic id counter), data before close precedes connectionLost, connectionLost once per side, write after close refused, an OPEN outside the declared set "
         "is closed rather than held. One fixed defect and one known finding (half-closeable connectionLost).",
    note=_DIL_NOTE, ref="6/C13")

CHECKS["C16"] = dict(
    text="The real TrafficTimer and the Manager's ping/pong/timer code run on a symbolic clock (instants and the ping interval are z3 Reals, every pong latency a Real "
         ">= 0 or 'never'): for every interval and every latency < interval the leader never disconnects and keeps pinging; if pongs stop after a solver-chosen ping "
         "the connection is dropped no later than the second timer expiry after the last answered ping and in under three intervals; after loss no timer is active and "
         "no ping is sent however much time passes, monitoring resumes on the next connection; a follower never pings.",
    note="symbolic clock symrun/clock.py; Connector and the selected connection replaced by inert/recording stubs; first 7/10 timer-or-pong events after a connection; "
         "pongs arrive in ping order.",
    ref="6/C16")

CHECKS["C15"] = dict(
    text="The real Outbound/PullToPush and Inbound flow-control code under bounded symbolic schedules of register/unregister (push and pull), subchannel close, transport "
         "pause/resume, connection loss/replacement and producer turns, with a solver-chosen flag per producer turn (writes) and per send_record (the transport pauses "
         "re-entrantly from inside the call): _check_invariants holds, every registered producer is paused while the connection is paused or absent, none is left paused "
         "after a drain, interrupted resumes give every producer a turn before any second turn (2..4 producers), inbound reading is paused iff some subchannel asked for "
         "it, also right after a replacement connection is installed.",
    note="connection, transport and cooperator are recorders; schedules of 5/6 steps over <= 3 producers from the initial state; unit level (no Manager/Connector).",
    ref="6/C15")

CHECKS["C01"] = dict(
    text="Two real clients whose code words (1-2/3 printable-ASCII characters after the nameplate) and application ids are solver variables: z3 decides equal vs different at "
         "any position, in three arrival orders (together, one side first, peer's PAKE before the local code via input_code): the PAKE password/identity are exactly the "
         "UTF-8 of code/appid; both sides report equal verifiers and equal derive_key output (distinct per purpose, length honoured) iff codes and appids are equal; otherwise "
         "no verifier/versions/message and WrongPasswordError for every side that heard the other. Concrete NFC/NFD, case, ligature, one-character and nameplate samples go "
         "through the real unicodedata in all three orders; bounded schedules cover arrival orders for wrong/right codes and different appids.",
    note="ideal PAKE (same key iff same password and identity bytes) and ideal AEAD; real HKDF/SHA-256; symbolic strings are ASCII (NFC = identity there), Unicode "
         "normalisation is covered by samples only; SPAKE2 group arithmetic and the Unicode tables are outside the claim.",
    ref="6/C01")
CHECKS["C02"] = dict(
    text="Real composed clients; at every prefix of an honest run the adversary delivers to either client a message whose side label (own/peer/third), phase label and body "
         "choice (any stored mailbox message incl. reflection and cross-phase replay, garbage, fabricated PAKE) are solver variables, or a stored ciphertext with one byte at "
         "a symbolic position replaced by a symbolic value; then everything else is delivered honestly: each application only ever receives the peer's plaintexts, in order, "
         "once each, and the peer's versions unaltered. Plus a z3 check on the real derive_phase_key that the HKDF purpose is injective in (side, phase).",
    note="ideal PAKE/AEAD (bit flip/truncate/extend = 'not an honest ciphertext'); 1 (quick) / 2 (thorough) injections per run; closing with any error is acceptable here.",
    ref="6/C02")
CHECKS["C04"] = dict(
    text="Kernel-level: the receiver's real _parse_offer/_transfer_data/_write_file/_close_transit run over a real transit.Connection in consumer mode with symbolic file "
         "size (incl. 0), 1..3/4 records of symbolic length and a symbolic loss point: success implies bytes written == announced size == the records in order, the hash "
         "covers exactly those bytes, the final name is created once and only after completion, the ack is sent only on success; a short stream never yields success, a "
         "destination or an ack. The sender's real _send_file (through twisted's FileSender) hands the pipe exactly the file's bytes and reports success only for "
         "ack=='ok' with an absent or equal sha256 and never when the ack is lost (ack fields symbolic).",
    note="NOT the end-to-end CLI statement: zip/zlib round trip of directory trees, text escaping, tqdm, real sockets and the send()/receive() orchestration are outside; "
         "records are opaque ropes (wire integrity is C06); ideal hash; recorded file system.",
    ref="6/C04")
CHECKS["C05"] = dict(
    text="The receiver's real _decide_destname/_remove_existing/_ask_permission/_handle_file/_handle_directory/_write_file/_extract_file/_write_directory run on fully "
         "symbolic offered names and zip member names (every code point; length <= 5 quick / 8 thorough), crossed with --output-file unset/new/existing file/existing directory, accept-file "
         "on/off and every prompt answer: z3 shows every recorded mutation (open-for-write, remove, rename, chmod, extract) lies at or beneath the announced destination (or "
         "its .tmp sibling), the destination is a proper child of the cwd / of the --output-file directory or the --output-file target itself, no directory is ever removed, "
         "no file is removed without --output-file, an existing destination is refused before any mutation, zip members never land outside the destination directory.",
    note="sandbox file-system tree instead of a real one (no symlinks/races/Windows); posixpath re-implemented over symbolic strings and differential-tested against the real "
         "module each run; ZipFile.extract contract assumed; the .tmp sibling counts as part of the destination mechanism.",
    ref="6/C05")

# ---- additions made while strengthening the checks against independently seeded changes (rounds 2 and 3); appended to the texts above
ADDED = {
    "C02": " Labels are judged where they enter the client: every successful decryption must be attributable to an honestly-labelled message that reached the Order machine; "
           "configurations with starved delivery and with three phases sent in a burst; a vacuity witness requires that an early authentic injection is accepted and delivered.",
    "C04": " Text messages and offered names additionally travel through the real json round trip as CONCRETE samples (json is C code; sampled, not solver-decided); "
           "_write_directory over solver-chosen archive member lists incl. empty directories.",
    "C06": " Job big_records: two honest records whose LENGTHS are solver variables (0..2**32-41; opaque rope payloads) framed by the real send_record and parsed by the real "
           "receiver whole and split at a solver-chosen byte: both deliver exactly the two payloads and end in the same parser state (framing arithmetic for every size incl. 64 KiB+)."
           " Job read_modes: solver-chosen schedules mixing receive_record() and consumer mode (symbolic expected byte count) over a backlog; every record reaches one sink, in sent order.",
    "C08": " Reconnect attempts that fail before onOpen are schedule actions; verdict/resource clauses are judged also after an internal failure the configuration did not provoke.",
    "C09": " Reconnect attempts that die during the WebSocket negotiation (after a first successful connection) are part of the loss model.",
    "C11": " TCP may split a chunk at its half, after its first byte or before its last byte (schedule actions).",
    "C12": " Job select_order: records queued between KCM and select() reach the manager in order for every select point and every split byte.",
    "C13": " A write after the local close is refused in every later state of the subchannel, also once it is fully closed.",
    "C14": " The input_code() helper's refresh_nameplates()/get_*_completions() are schedule actions in two configurations.",
    "C15": " The Cooperator task stand-in counts pauses like twisted's CooperativeTask.",
    "C16": " Mode backpressure: the transport pauses/resumes Outbound at solver-chosen events while the peer answers every ping it receives.",
    "C18": " Configuration with an injected internal error (once-only / closed-last also hold on that path).",
    "C19": " The real _rlcompleter.CodeInputter on the real Input machine with symbolic TAB text and final text: completions extend what was typed, an accepted entry sets exactly "
           "the typed code on the claimed nameplate, an edited claimed nameplate is refused.",
    "C01": ' Honest runs include an EMPTY application message; schedule explorations end with an honest completion (the applications finish the session).',
    "C03": ' After the free steps the applications complete the session honestly (enter the code, send the rest) and the oracle is applied again; payloads include the empty message and vary in length.',
    "C05": " The destination must be named by the offer's basename; concrete name samples (Unicode normalisation forms, case, compatibility characters) run on the real posixpath.",
    "C07": ' Variants: the first endpoint fails synchronously (pre-fired contender); an inbound connection negotiates before connect() is called; no attempt may stay pending once connect() has finished.',
    "C17": ' Every explored run ends with stop() on every side that is not stopped yet: shutdown must complete from every state reached; one configuration lets any link die at any moment.',
    "C20": ' Endpoint stubs fail synchronously for host names Twisted cannot IDNA-encode; connect() may only finish once no dialled attempt is pending.',
    "C02__more": " Per-path validation re-runs sampled paths concretely and compares what the applications saw; injections enter through the real ws_message; label pairs whose concatenation equals an honest pair's are in the symbolic domains.",
    "C06__more": ' Reader loops (receive_record() re-issued from inside its callback) are part of the read-mode schedules.',
    "C09__more": ' Long sessions (20 messages) with connection losses at every point.',
    "C12__more": ' The struct module seen by the code is a facade bound at import time (precompiled Struct objects and signed formats are modelled); every path and every counterexample replay has a wall-clock limit, a replay that does not return is a reproduced hang.',
    "C14__more": ' Failed reconnect attempts (onClose without onOpen) are part of the loss model.',
    "C18__more": ' Getter bursts: several get_message() calls outstanding at close.',
    "C19__more": ' allocate_code() before and after the connection is up.',
    "C01__r5": ' A same-code configuration under duplicated/reordered delivery: no WrongPasswordError with the same code, and agreement is reached once both entered it and everything was delivered.',
    "C02__r5": ' A variant injects after a reconnect whose replay the server withholds.',
    "C04__r5": ' A directory offer cut short at a solver-chosen point touches nothing in the file system (job shared with C05).',
    "C07__r5": ' Variant late-bytes: closes are asynchronous and the application may cancel connect(); go may only be written to the connection connect() returns.',
    "C08__r5": ' A welcome error may arrive on a later connection.',
    "C10__r5": " One configuration writes 65515 bytes (an encoded record between Noise's payload and message limits); the network model reports reconnect livelocks.",
    "C11__r5": ' One canonical order keeps other attempts of the generation in flight at selection time.',
    "C14__r5": ' Three application phases in flight with duplicated/reordered delivery.',
    "C15__r5": " A job family lets the transport resume from inside a producer's turn; the oracle takes the transport's last signal as the truth.",
    "C16__r5": ' Jobs monitor_net run two real dilation stacks on the in-memory network (any link may die at any moment, then more than three ping intervals pass): the Leader must not be left holding a dead connection.',
    "C01__r6": ' The samples pair a delegate-API side with a Deferred-API side and derive keys for purposes that are not in NFC form.',
    "C02__r6": ' A unit-level job runs the real Boss hold-back buffers over every arrival order of three application and three dilate phases.',
    "C03__r6": ' Concrete phase-name dispatch samples through the real Boss.got_message; the Boss hold-back buffer job.',
    "C04__r6": ' A content-level job: solver-chosen record contents (data, all-zero, empty) through the real FileConsumer into a real file object.',
    "C05__r6": ' Archive directory entries; makedirs/mkdir are judged like extract/chmod.',
    "C07__r6": ' A job whose only contender is the listener (the deadline still applies).',
    "C09__r6": ' close() is a free step and must complete; the server model refuses a close without mailbox id that does not follow an open.',
    "C10__r6": ' Configuration listen-late: two subchannels are written to before the receiving application listens.',
    "C11__r6": ' Concrete phase-name dispatch samples (every dilate-N reaches the Dilator, for multi-digit N too).',
    "C13__r6": ' The write after close is tried with an empty and a non-empty byte string.',
    "C15__r6": ' The transport may call stopProducing() before the loss is reported.',
    "C16__r6": ' After a loss the replacement connection is silent and must itself be dropped within three intervals.',
    "C19__r6": ' Completion words are compared with reference lists computed from the byte->word tables allocation draws from.',
    "C20__r6": ' An integer priority beyond the range of a double is in the domains.',
    "C01__r7": ' One purpose is derived with several lengths, the short one first, on both sides (length honoured, bytes equal).',
    "C02__r7": " Job replay_after_long_session: after sessions of 20..150 (thorough 300) messages the server replays one stored message (solver's choice of message and recipient); nothing is delivered twice.",
    "C03__r7": " The WebSocket may start closing at any moment (sends then raise autobahn's Disconnected until onClose is delivered). Full-stack family (harness/fullstack.py): two real wormholes created with dilation=True run over the mailbox server model AND the in-memory TCP network at once (dilate-N phases through the real Send/Mailbox/Order/Receive/Boss path, mailbox drops and reordered delivery, w.dilate() early or late, application messages alongside): with two application messages per side, the received stream is exactly what the peer sent.",
    "C04__r7": ' Success without an evaluated acknowledgement is a violation.',
    "C07__r7": ' The expected handshakes come from an independent reference (own RFC 5869 HKDF), and a variant lets a second Transit object holding ANOTHER key negotiate first in the same process: what this side sends must be the handshake of its own key.',
    "C08__r7": ' Full-stack family (harness/fullstack.py): two real wormholes created with dilation=True run over the mailbox server model AND the in-memory TCP network at once (dilate-N phases through the real Send/Mailbox/Order/Receive/Boss path, mailbox drops and reordered delivery, w.dilate() early or late, application messages alongside): close() of a dilating wormhole, also against a peer that cannot dilate, leads to exactly one closed notification with an admissible verdict and freed server resources.',
    "C10__r7": " Full-stack family (harness/fullstack.py): two real wormholes created with dilation=True run over the mailbox server model AND the in-memory TCP network at once (dilate-N phases through the real Send/Mailbox/Order/Receive/Boss path, mailbox drops and reordered delivery, w.dilate() early or late, application messages alongside): C10's delivery oracle on the full stack (one-way with reordering server; two-way with dilate() after the versions arrived).",
    "C11__r7": ' Full-stack family (harness/fullstack.py): two real wormholes created with dilation=True run over the mailbox server model AND the in-memory TCP network at once (dilate-N phases through the real Send/Mailbox/Order/Receive/Boss path, mailbox drops and reordered delivery, w.dilate() early or late, application messages alongside): PLEASE/HINTS/RECONNECT(ING) reordered by the server and re-ordered by Boss; one connection at a time, convergence.',
    "C12__r7": " The LENGTHS of the frames after the handshake are the adversary's choice too (honest, empty, one byte, one byte short); loops over a symbolic length via range() are unrolled by the engine.",
    "C13__r7": ' Full-stack family (harness/fullstack.py): two real wormholes created with dilation=True run over the mailbox server model AND the in-memory TCP network at once (dilate-N phases through the real Send/Mailbox/Order/Receive/Boss path, mailbox drops and reordered delivery, w.dilate() early or late, application messages alongside): expected_subprotocols through the real w.dilate() -> Boss -> Dilator -> Manager path.',
    "C14__r7": ' Full-stack family (harness/fullstack.py): two real wormholes created with dilation=True run over the mailbox server model AND the in-memory TCP network at once (dilate-N phases through the real Send/Mailbox/Order/Receive/Boss path, mailbox drops and reordered delivery, w.dilate() early or late, application messages alongside): legal use including dilate() (early/late, against an old peer), close() verdict documented, nothing logged.',
    "C15__r7": " With three producers, ANOTHER producer (possibly one still waiting for its turn in the current drain) may unregister or be closed during a producer's turn.",
    "C16__r7": " The two ends of a link learn of its loss separately (the Leader's end as late as possible); cause accounting: every new generation the Leader starts needs a lost link or a connection that had been quiet for a ping interval.",
    "C17__r7": ' Full-stack family (harness/fullstack.py): two real wormholes created with dilation=True run over the mailbox server model AND the in-memory TCP network at once (dilate-N phases through the real Send/Mailbox/Order/Receive/Boss path, mailbox drops and reordered delivery, w.dilate() early or late, application messages alongside): the statement itself - w.close() on a wormhole on which dilate() was called completes (real Terminator/Dilator), from every state incl. dilate() after the versions arrived, and connect() fails with OldPeerCannotDilateError against a real non-dilating wormhole.',
    "C19__r7": ' Job tab_session: completer(text, state) driven as readline drives it over three TAB presses on symbolic lines (a, b, b again); every completion offered extends the line as it was at that TAB.',
    "C02__r8": " Full-stack family: a dilating wormhole paired with one created WITHOUT dilation, and a pair that dilates late, under a reordering server - the application's message stream is exactly what the peer sent (no dilate-N plaintext is ever handed over as a message).",
    "C14__r8": ' Every NoTransition is recorded where Automat constructs it, so one swallowed by a Deferred (Terminator under RendezvousConnector.stop()) still counts.',
    "C14__r8b": " Full-stack configuration fs-disjoint-dilation-versions: the peer offers only a dilation version this side does not know (found a genuine defect, fixed in 855cc22).",
    "C18__r8": ' One configuration uses the Deferred API with nested callbacks (versions and messages asked for from inside the key callback).',
    "C16__r8": " Configuration net-half-open-busy-writer: only the Follower's end of the link in use learns of its loss while the Leader's application keeps writing every 20 s; after 160 s the Leader must have replaced the connection.",
    "C20__r7": ' Well-formed lists contain twin entries (one target as Tor and as direct hint, symbolic types/priorities): an undialable twin must not keep the dialable one from being dialled.',
}
for _k, _v in ADDED.items():
    CHECKS[_k.split("__")[0]]["text"] = CHECKS[_k.split("__")[0]]["text"].rstrip() + _v

NOT_YET = {}

NA = {}


def main():
    props = [json.loads(l) for l in open(os.path.join(HERE, "properties.jsonl"))]
    checks = []
    na = []
    for p in props:
        pid = p["id"]
        if pid in CHECKS:
            c = CHECKS[pid]
            checks.append(dict(
                property_id=pid,
                quick_cmd="./vcheck %s --tier quick" % pid,
                thorough_cmd="./vcheck %s --tier thorough" % pid,
                evidence_file="evidence/%s.json" % pid,
                replay_cmd_template="./vcheck %s --replay {path}" % pid,
                engine="symrun",
                level_claimed=dict(category="other", text=c["text"], design_ref="DESIGN.md section " + c["ref"]),
                level_note=c["note"],
                technique=c.get("technique", TECH)))
        else:
            na.append(dict(property_id=pid, reason=NA.get(pid) or NOT_YET.get(pid) or
                           "check not built yet in this round (planned, see DESIGN.md section 6/%s); nothing is claimed" % pid))
    m = dict(
        version=1,
        setup_cmd="bash setup.sh",
        hooks=dict(guard="MAGIC_WORMHOLE_VERIF", enable="no source hooks are needed: observation is from outside (module-namespace shadows, recorder delegates, import-time AST pass applied to the current source); vcheck exports MAGIC_WORMHOLE_VERIF=1 for uniformity",
                   baseline_off_cmd="cd /repo && /venv/bin/python -m pytest -ra -q -p no:cacheprovider --timeout=900 --continue-on-collection-errors",
                   source_commits=[], add_only=True),
        engines=[dict(name="symrun", path="symrun/", serves_properties=sorted(CHECKS),
                      kind_free_text="native symbolic executor for Python: proxy values build z3 terms while the real repo code runs; "
                                     "fork by re-execution; z3 5.1 decides every branch feasibility and every obligation")],
        checks=checks,
        notes="Exit codes: 0 pass, 1 VIOLATION (after replay on un-instrumented code), 2 INCONCLUSIVE/harness error. "
              "known_findings.json lists genuine defects recorded or fixed.",
        not_applicable=na)
    with open(os.path.join(HERE, "MANIFEST.json"), "w") as f:
        json.dump(m, f, indent=1)
    print("MANIFEST.json: %d checks, %d not claimed" % (len(checks), len(na)))


if __name__ == "__main__":
    main()
