#!/bin/bash
# tools/seed_eval2.sh <seed-dir> <worktree-with-change-applied> <name> <check-id> [tier]
# like seed_eval.sh, but runs the check against the scratch worktree (VERIF_REPO) instead of patching /repo,
# so that /repo stays pristine while other work uses it
sd="$1"; wt="$2"; name="$3"; id="$4"; tier="${5:-quick}"
echo "== patch matches worktree: $(cd $wt && git diff | diff -q - $sd/patch.diff >/dev/null && echo yes || echo NO)"
echo "== suite with change"; (cd "$wt" && PYTHONPATH="$wt/src" timeout 900 /venv/bin/python -m pytest -q -p no:cacheprovider --timeout=900 src/wormhole/test 2>&1 | tail -1)
echo "== demo on pristine /repo"; PYTHONPATH=/repo/src timeout 300 /venv/bin/python "$sd/demo.py" >/tmp/demo_p.out 2>&1; echo "rc=$? $(tail -1 /tmp/demo_p.out | cut -c1-200)"
echo "== demo with change"; PYTHONPATH="$wt/src" timeout 300 /venv/bin/python "$sd/demo.py" >/tmp/demo_c.out 2>&1; echo "rc=$? $(grep -m1 -i fail /tmp/demo_c.out | cut -c1-200)"
echo "== check $id ($tier) against the worktree"
cd /verif && VERIF_REPO="$wt" timeout 3000 ./vcheck "$id" --tier "$tier" 2>&1 | grep -E "^(VIOLATION|INCONCLUSIVE|PASS|  key=|KNOWN)" | cut -c1-400 | head -8
mkdir -p /verif/seeded/"$name" && cp "$sd/patch.diff" "$sd/demo.py" "$sd/meta.json" /verif/seeded/"$name"/ 2>/dev/null
