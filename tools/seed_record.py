#!/usr/bin/env python3
"""tools/seed_record.py <seed-name> <first_attempt:yes|no|wrong-reason> <caught_by> <result> [strengthened]
records the evaluation of a seeded change in seeded/<name>/meta.json"""
import json, sys, os
name, first, by, result = sys.argv[1:5]
strengthened = sys.argv[5] if len(sys.argv) > 5 else None
p = os.path.join(os.path.dirname(os.path.dirname(os.path.abspath(__file__))), "seeded", name, "meta.json")
m = json.load(open(p))
m["evaluation"] = {"caught_by": by, "result": result, "first_attempt": first == "yes", "round": int(os.environ.get("SEED_ROUND", "3")),
                   "confirmed": ["existing suite: 438 passed with the change", "demo.py: exit 0 on pristine /repo, exit 1 with the change",
                                 "check run against the scratch worktree containing exactly patch.diff (VERIF_REPO=<worktree>), /repo untouched",
                                 "same check on pristine /repo: PASS"]}
if first == "wrong-reason":
    m["evaluation"]["first_attempt"] = "caught, but for a reason unrelated to the change"
if strengthened:
    m["evaluation"]["strengthened"] = strengthened
json.dump(m, open(p, "w"), indent=1)
print("recorded", name)
