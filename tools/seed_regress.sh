#!/bin/bash
# tools/seed_regress.sh [seed-name ...]
# regression suite for the machinery itself: every seeded change (seeded/<name>/patch.diff) is applied to a scratch worktree of /repo
# (outside /repo and /verif, removed afterwards) and the quick check of its property must report a VIOLATION (exit 1).
# /repo itself is never touched.  Prints one line per seed; exits 1 if any seed is no longer detected.
cd "$(dirname "$0")/.."
names=("$@"); [ ${#names[@]} -eq 0 ] && names=($(ls seeded))
wt=/tmp/seed_regress_wt.$$
bad=0
for n in "${names[@]}"; do
  id=${n:0:3}
  alt=$(python3 -c "import json,sys; print(json.load(open('seeded/$n/meta.json')).get('evaluation',{}).get('regress_with',''))" 2>/dev/null)
  [ -n "$alt" ] && id=$alt
  miss=$(python3 -c "import json,sys; print(json.load(open('seeded/$n/meta.json')).get('evaluation',{}).get('caught',True))" 2>/dev/null)
  if [ "$miss" = "False" ]; then echo "$n: recorded as NOT caught by any check (open item, see DESIGN section 11) - skipped"; continue; fi
  git -C /repo worktree add -q --detach "$wt" HEAD || { echo "$n: cannot create worktree"; bad=1; continue; }
  if ! git -C "$wt" apply "$PWD/seeded/$n/patch.diff" 2>/dev/null; then
    echo "$n: patch does not apply to the current HEAD (skipped)"
  else
    s=$(date +%s)
    out=$(VERIF_REPO="$wt" timeout 3000 ./vcheck "$id" --tier quick 2>&1); rc=$?
    if [ $rc -eq 1 ] && echo "$out" | grep -q "^VIOLATION property=$id"; then
      echo "$n: detected ($(( $(date +%s)-s ))s) $(echo "$out" | grep -m1 '^  key=' | cut -c1-140)"
    else
      echo "$n: NOT DETECTED (exit $rc) $(echo "$out" | grep -E '^(INCONCLUSIVE|PASS)' | head -2 | cut -c1-200 | tr '\n' ';')"; bad=1
    fi
  fi
  git -C /repo worktree remove --force "$wt"; rm -rf "/tmp/verif-scratch-out/$(basename $wt)"
done
git -C /repo worktree prune
# evidence files were rewritten by runs against modified code: refresh them from the real tree for the properties touched
exit $bad
