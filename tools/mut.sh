#!/bin/bash
# tools/mut.sh <file-relative-to-/repo> <sed-expr> <ID> [tier]   -- apply a one-line mutant, run a check, revert
f="$1"; expr="$2"; id="$3"; tier="${4:-quick}"
cd /repo && sed -i "$expr" "$f" && git diff --stat | tail -1
cd /verif && ./vcheck "$id" --tier "$tier" 2>&1 | grep -E "VIOLATION|INCONCLUSIVE|PASS|key=|KNOWN" | head -8
echo "rc=${PIPESTATUS[0]}"
cd /repo && git checkout -- . && git status --short | head -3
