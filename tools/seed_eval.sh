#!/bin/bash
# tools/seed_eval.sh <seed-dir> <worktree> <name> <check-id> [tier]
# 1. confirms the seeded change: suite passes with it, demo fails with it and passes on pristine /repo
# 2. applies it to /repo, runs the check, reverts; copies the seed into /verif/seeded/<name>/
sd="$1"; wt="$2"; name="$3"; id="$4"; tier="${5:-quick}"
set -u
echo "== suite with change"; (cd "$wt" && PYTHONPATH="$wt/src" timeout 900 /venv/bin/python -m pytest -q -p no:cacheprovider --timeout=900 src/wormhole/test 2>&1 | tail -1)
echo "== demo on pristine /repo"; PYTHONPATH=/repo/src timeout 300 /venv/bin/python "$sd/demo.py" >/tmp/demo_p.out 2>&1; echo "rc=$? $(tail -1 /tmp/demo_p.out | cut -c1-200)"
echo "== demo with change"; PYTHONPATH="$wt/src" timeout 300 /venv/bin/python "$sd/demo.py" >/tmp/demo_c.out 2>&1; echo "rc=$? $(grep -m1 -i fail /tmp/demo_c.out | cut -c1-200)"
echo "== check $id ($tier) on /repo + patch"
cd /repo && git apply "$sd/patch.diff" && git diff --stat | tail -1
cd /verif && timeout 3000 ./vcheck "$id" --tier "$tier" 2>&1 | grep -E "^(VIOLATION|INCONCLUSIVE|PASS|  key=|KNOWN)" | cut -c1-400 | head -8
cd /repo && git checkout -- . && git status --short | head -2
mkdir -p /verif/seeded/"$name" && cp "$sd/patch.diff" "$sd/demo.py" "$sd/meta.json" /verif/seeded/"$name"/ 2>/dev/null
